//! Spec -> implementation replay for FjallTx behaviours: several write transactions are kept
//! alive on one thread and stepped in the order the specification chose; every read result,
//! every commit outcome and the committed content after each commit are compared with the
//! specification's.

use crate::store::{ks_options, open_db, Variant};
use crate::util::{fresh_dir, hash_str, Concretizer, Outcome};
use fjall::{
    Database, Keyspace, OptimisticTxDatabase, OptimisticTxKeyspace, OptimisticWriteTx, Readable,
    SingleWriterTxDatabase, SingleWriterTxKeyspace, SingleWriterWriteTx,
};
use serde_json::{json, Value};
use std::collections::BTreeMap;
use std::path::PathBuf;

pub struct TxArgs {
    pub file: PathBuf,
    pub out_dir: PathBuf,
    pub property: String,
    pub seed: u64,
    pub nkeys: u64,
    /// model keys 1..=kssplit live in keyspace "a", the others in keyspace "b" under the SAME user keys
    pub kssplit: u64,
    pub single_writer: bool,
    pub allowed_kf: Vec<String>,
}

enum Tx<'a> {
    Opt(OptimisticWriteTx),
    Single(SingleWriterWriteTx<'a>),
}

/// model result of a read: value (number) or set of <<k, v>> pairs
fn pairs_of(v: &Value) -> Vec<(u64, u64)> {
    let mut out: Vec<(u64, u64)> = v
        .as_array()
        .map(|a| {
            a.iter()
                .map(|p| (p[0].as_u64().unwrap_or(0), p[1].as_u64().unwrap_or(0)))
                .collect()
        })
        .unwrap_or_default();
    out.sort_unstable();
    out
}

/// `cell`: (number of user keys of the keyspace, offset of its model keys)
fn collect(conc: &Concretizer, cell: (u64, u64), it: fjall::Iter) -> Result<Vec<(u64, u64)>, String> {
    let keys: Vec<Vec<u8>> = (1..=cell.0).map(|i| conc.key(i)).collect();
    let mut out = vec![];
    for g in it {
        let (kb, v) = g.into_inner().map_err(|e| format!("{e:?}"))?;
        match keys.iter().position(|x| x[..] == kb[..]) {
            Some(i) => out.push((i as u64 + 1 + cell.1, conc.unval(&v))),
            None => return Err("scan yields a key never written".into()),
        }
    }
    Ok(out)
}

/// Executes one read method on a transaction through every API path that has the same
/// documented meaning and footprint class; returns the model-level result.
fn do_read<T: Readable>(tx: &T, ks: &Keyspace, conc: &Concretizer, cell: (u64, u64), m: &str, arg: u64, variant: u64)
    -> Result<Value, String> {
    let e = |x: fjall::Error| format!("{x:?}");
    let arg = arg - cell.1; // user key of the model key
    match m {
        "get" => {
            if variant % 2 == 0 {
                let v = tx.get(ks, conc.key(arg)).map_err(e)?;
                Ok(json!(v.map_or(0, |b| conc.unval(&b))))
            } else {
                // contains_key has the footprint of get; the value is fetched by a second get
                let c = tx.contains_key(ks, conc.key(arg)).map_err(e)?;
                let v = tx.get(ks, conc.key(arg)).map_err(e)?;
                if c != v.is_some() {
                    return Err("contains_key and get disagree inside a transaction".into());
                }
                Ok(json!(v.map_or(0, |b| conc.unval(&b))))
            }
        }
        "size_of" => {
            let s = tx.size_of(ks, conc.key(arg)).map_err(e)?;
            // the model result is the value; the size identifies it (0 = absent)
            Ok(json!({"size": s}))
        }
        "scan" => {
            let pairs = match variant % 4 {
                0 => collect(conc, cell, tx.iter(ks))?,
                1 => {
                    let mut p = collect(conc, cell, tx.iter(ks))?;
                    let n = tx.len(ks).map_err(e)?;
                    if n != p.len() {
                        return Err(format!("len() = {n}, iter has {}", p.len()));
                    }
                    let em = tx.is_empty(ks).map_err(e)?;
                    if em != p.is_empty() {
                        return Err("is_empty disagrees with iter".into());
                    }
                    p.sort_unstable();
                    p
                }
                2 => {
                    let p = collect(conc, cell, tx.range::<Vec<u8>, _>(ks, ..))?;
                    let f = tx.first_key_value(ks).and_then(|g| g.key().ok()).map(|k| k.to_vec());
                    let exp_first = p.first().map(|(k, _)| conc.key(*k - cell.1));
                    if f != exp_first {
                        return Err("first_key_value disagrees with range(..)".into());
                    }
                    p
                }
                _ => {
                    let mut p: Vec<(u64, u64)> = vec![];
                    let mut it = tx.iter(ks);
                    // consumed from the back
                    let keys: Vec<Vec<u8>> = (1..=cell.0).map(|i| conc.key(i)).collect();
                    while let Some(g) = it.next_back() {
                        let (kb, v) = g.into_inner().map_err(e)?;
                        if let Some(i) = keys.iter().position(|x| x[..] == kb[..]) {
                            p.push((i as u64 + 1 + cell.1, conc.unval(&v)));
                        }
                    }
                    p.reverse();
                    let l = tx.last_key_value(ks).and_then(|g| g.key().ok()).map(|k| k.to_vec());
                    if l != p.last().map(|(k, _)| conc.key(*k - cell.1)) {
                        return Err("last_key_value disagrees with reverse iter".into());
                    }
                    p
                }
            };
            Ok(json!(pairs.iter().map(|(k, v)| json!([k, v])).collect::<Vec<_>>()))
        }
        "range_lo" => {
            // keys <= arg
            let hi = conc.key(arg);
            let p = collect(conc, cell, tx.range::<Vec<u8>, _>(ks, ..=hi))?;
            Ok(json!(p.iter().map(|(k, v)| json!([k, v])).collect::<Vec<_>>()))
        }
        "range_hi" => {
            // keys >= arg
            let lo = conc.key(arg);
            let p = collect(conc, cell, tx.range::<Vec<u8>, _>(ks, lo..))?;
            Ok(json!(p.iter().map(|(k, v)| json!([k, v])).collect::<Vec<_>>()))
        }
        "range_pt" => {
            // the single-point range arg..=arg (through both spellings of the bounds)
            let k = conc.key(arg);
            let p = if variant % 2 == 0 {
                collect(conc, cell, tx.range::<Vec<u8>, _>(ks, k.clone()..=k))?
            } else {
                collect(conc, cell, tx.range::<Vec<u8>, _>(ks, (std::ops::Bound::Included(k.clone()), std::ops::Bound::Included(k))))?
            };
            Ok(json!(p.iter().map(|(k, v)| json!([k, v])).collect::<Vec<_>>()))
        }
        "prefix" => {
            // keys that start with key(arg): through prefix() and through the equivalent range
            let a = conc.key(arg);
            let p = if variant % 2 == 0 {
                collect(conc, cell, tx.prefix(ks, &a))?
            } else {
                collect(conc, cell, tx.range::<fjall::Slice, _>(ks, fjall::util::prefix_to_range(&a)))?
            };
            Ok(json!(p.iter().map(|(k, v)| json!([k, v])).collect::<Vec<_>>()))
        }
        "range_ue" | "range_eu" | "range_ie" | "range_ei" | "range_ee" => {
            // the remaining shapes of (start bound, end bound); prefix() is the (Included, Excluded) one
            use std::ops::Bound::{Excluded, Included, Unbounded};
            let a = conc.key(arg);
            let p = match m {
                "range_ue" => {
                    if variant % 2 == 0 {
                        collect(conc, cell, tx.range::<Vec<u8>, _>(ks, ..a))?
                    } else {
                        collect(conc, cell, tx.range::<Vec<u8>, _>(ks, (Unbounded, Excluded(a))))?
                    }
                }
                "range_eu" => collect(conc, cell, tx.range::<Vec<u8>, _>(ks, (Excluded(a), Unbounded)))?,
                "range_ie" => {
                    let b = conc.key(arg + 1);
                    if variant % 2 == 0 {
                        collect(conc, cell, tx.range::<Vec<u8>, _>(ks, a..b))?
                    } else {
                        collect(conc, cell, tx.range::<Vec<u8>, _>(ks, (Included(a), Excluded(b))))?
                    }
                }
                "range_ei" => collect(conc, cell, tx.range::<Vec<u8>, _>(ks, (Excluded(a), Included(conc.key(arg + 1)))))?,
                _ => collect(conc, cell, tx.range::<Vec<u8>, _>(ks, (Excluded(a), Excluded(conc.key(arg + 2)))))?,
            };
            Ok(json!(p.iter().map(|(k, v)| json!([k, v])).collect::<Vec<_>>()))
        }
        _ => Err(format!("unknown read method {m}")),
    }
}

fn check_read(conc: &Concretizer, m: &str, got: &Value, exp: &Value) -> Option<String> {
    match m {
        "get" => {
            if got.as_u64() != exp.as_u64() {
                return Some(format!("get returned {got}, specification {exp}"));
            }
        }
        "size_of" => {
            let v = exp.as_u64().unwrap_or(0);
            let exp_size = if v == 0 { None } else { Some(conc.val(v).len() as u64) };
            if got["size"].as_u64() != exp_size {
                return Some(format!("size_of returned {}, specification value {v} (size {exp_size:?})", got["size"]));
            }
        }
        _ => {
            if pairs_of(got) != pairs_of(exp) {
                return Some(format!("{m} returned {:?}, specification {:?}", pairs_of(got), pairs_of(exp)));
            }
        }
    }
    None
}

pub fn run_tx_replay(args: &TxArgs) -> Outcome {
    let mut out = Outcome::default();
    let root = crate::util::scratch_root();
    let text = std::fs::read_to_string(&args.file).expect("read behaviours");
    let mut kf_seen: BTreeMap<String, String> = BTreeMap::new();
    for (bi, line) in text.lines().enumerate() {
        if line.trim().is_empty() {
            continue;
        }
        let steps: Vec<Value> = match serde_json::from_str::<Value>(line) {
            Ok(Value::Array(a)) => a,
            _ => continue,
        };
        let sig: String = steps.iter().map(|s| s.to_string()).collect();
        out.distinct.insert(hash_str(&sig));
        out.behaviours += 1;
        let variant = Variant::from_index(args.seed.wrapping_add(bi as u64) % 16, &[]);
        // the specification's prefix relation (PfxPairs) is the one of key scheme 0
        let uses_prefix = sig.contains("\"prefix\"");
        let conc = Concretizer::new(if uses_prefix { 0 } else { variant.key_scheme }, variant.val_scheme, args.seed ^ bi as u64);
        let dir = fresh_dir(&root, &format!("t{bi}"));
        let mut viol: Option<(usize, String)> = None;

        let r = std::panic::catch_unwind(std::panic::AssertUnwindSafe(|| -> Result<Option<(usize, String)>, String> {
            let e = |x: fjall::Error| format!("{x:?}");
            let mut b = fjall::Database::builder(&dir).worker_threads_unchecked(0);
            let _ = &mut b;
            drop(b);
            // open the transactional database of the requested kind
            let odb: Option<OptimisticTxDatabase>;
            let sdb: Option<SingleWriterTxDatabase>;
            if args.single_writer {
                sdb = Some(SingleWriterTxDatabase::builder(&dir).worker_threads_unchecked(0).open().map_err(e)?);
                odb = None;
            } else {
                odb = Some(OptimisticTxDatabase::builder(&dir).worker_threads_unchecked(0).open().map_err(e)?);
                sdb = None;
            }
            let oks: Option<OptimisticTxKeyspace> = match &odb {
                Some(d) => Some(d.keyspace("a", || ks_options(&variant)).map_err(e)?),
                None => None,
            };
            let sks: Option<SingleWriterTxKeyspace> = match &sdb {
                Some(d) => Some(d.keyspace("a", || ks_options(&variant)).map_err(e)?),
                None => None,
            };
            // second keyspace: the same user keys again (model keys above kssplit)
            let oks2: Option<OptimisticTxKeyspace> = match &odb {
                Some(d) => Some(d.keyspace("b", || ks_options(&variant)).map_err(e)?),
                None => None,
            };
            let sks2: Option<SingleWriterTxKeyspace> = match &sdb {
                Some(d) => Some(d.keyspace("b", || ks_options(&variant)).map_err(e)?),
                None => None,
            };
            let split = if args.kssplit == 0 || args.kssplit >= args.nkeys { args.nkeys } else { args.kssplit };
            let cell_of = |k: u64| -> (u64, u64) { if k <= split { (split, 0) } else { (args.nkeys - split, split) } };
            let inner_db: Database = match (&odb, &sdb) {
                (Some(d), _) => d.inner().clone(),
                (_, Some(d)) => d.inner().clone(),
                _ => unreachable!(),
            };
            let ks1: Keyspace = match (&oks, &sks) {
                (Some(k), _) => k.inner().clone(),
                (_, Some(k)) => k.inner().clone(),
                _ => unreachable!(),
            };
            let ks2: Keyspace = match (&oks2, &sks2) {
                (Some(k), _) => k.inner().clone(),
                (_, Some(k)) => k.inner().clone(),
                _ => unreachable!(),
            };
            let z = inner_db.keyspace("z", fjall::KeyspaceCreateOptions::default).map_err(e)?;
            let mut txs: BTreeMap<u64, Tx> = BTreeMap::new();
            for (si, step) in steps.iter().enumerate() {
                let a = step["a"].as_str().unwrap_or("");
                let t = step["t"].as_u64().unwrap_or(0);
                match a {
                    "Begin" => {
                        let tx = match (&odb, &sdb) {
                            (Some(d), _) => Tx::Opt(d.write_tx().map_err(e)?),
                            (_, Some(d)) => Tx::Single(d.write_tx()),
                            _ => unreachable!(),
                        };
                        txs.insert(t, tx);
                    }
                    "Read" => {
                        let m = step["m"].as_str().unwrap();
                        let arg = step["arg"].as_u64().unwrap_or(1);
                        let var = (args.seed + bi as u64 + si as u64) % 4;
                        let cell = cell_of(arg);
                        let ks = if cell.1 == 0 { &ks1 } else { &ks2 };
                        let got = match txs.get(&t).ok_or("no tx")? {
                            Tx::Opt(x) => do_read(x, ks, &conc, cell, m, arg, var)?,
                            Tx::Single(x) => do_read(x, ks, &conc, cell, m, arg, var)?,
                        };
                        if let Some(p) = check_read(&conc, m, &got, &step["res"]) {
                            return Ok(Some((si, format!("tx {t}: {p}"))));
                        }
                    }
                    "Write" => {
                        let mk = step["k"].as_u64().unwrap();
                        let cell = cell_of(mk);
                        let k = conc.key(mk - cell.1);
                        let del = step["del"].as_bool().unwrap_or(false);
                        let v = step["v"].as_u64().unwrap_or(0);
                        match txs.get_mut(&t).ok_or("no tx")? {
                            Tx::Opt(x) => {
                                let ks = if cell.1 == 0 { &ks1 } else { &ks2 };
                                if del { x.remove(ks, k) } else { x.insert(ks, k, conc.val(v)) }
                            }
                            Tx::Single(x) => {
                                let sk = if cell.1 == 0 { sks.as_ref().unwrap() } else { sks2.as_ref().unwrap() };
                                if del { x.remove(sk, k) } else { x.insert(sk, k, conc.val(v)) }
                            }
                        }
                    }
                    "Rmw" => {
                        let mk = step["k"].as_u64().unwrap();
                        let cell = cell_of(mk);
                        let ks = if cell.1 == 0 { &ks1 } else { &ks2 };
                        let k = conc.key(mk - cell.1);
                        let v = step["v"].as_u64().unwrap_or(0);
                        let which = (args.seed + si as u64) % 2;
                        let prev_model = step["prev"].as_u64().unwrap_or(0);
                        let (prev, ret_new): (Option<fjall::UserValue>, Option<fjall::UserValue>) = if v == 0 {
                            // take(), or fetch_update with a closure that answers None
                            match txs.get_mut(&t).ok_or("no tx")? {
                                Tx::Opt(x) => {
                                    if which == 0 { (x.take(ks, k).map_err(e)?, None) } else { (x.fetch_update(ks, k, |_| None).map_err(e)?, None) }
                                }
                                Tx::Single(x) => {
                                    let sk = if cell.1 == 0 { sks.as_ref().unwrap() } else { sks2.as_ref().unwrap() };
                                    if which == 0 { (x.take(sk, k).map_err(e)?, None) } else { (x.fetch_update(sk, k, |_| None).map_err(e)?, None) }
                                }
                            }
                        } else {
                        let newv = conc.val(v);
                        match txs.get_mut(&t).ok_or("no tx")? {
                            Tx::Opt(x) => {
                                if which == 0 {
                                    (x.fetch_update(ks, k, |_| Some(newv.clone().into())).map_err(e)?, None)
                                } else {
                                    let mut seen = None;
                                    let r = x.update_fetch(ks, k, |p| { seen = p.cloned(); Some(newv.clone().into()) }).map_err(e)?;
                                    (seen, r)
                                }
                            }
                            Tx::Single(x) => {
                                let sk = if cell.1 == 0 { sks.as_ref().unwrap() } else { sks2.as_ref().unwrap() };
                                if which == 0 {
                                    (x.fetch_update(sk, k, |_| Some(newv.clone().into())).map_err(e)?, None)
                                } else {
                                    let mut seen = None;
                                    let r = x.update_fetch(sk, k, |p| { seen = p.cloned(); Some(newv.clone().into()) }).map_err(e)?;
                                    (seen, r)
                                }
                            }
                        }
                        };
                        let got_prev = prev.map_or(0, |b| conc.unval(&b));
                        if got_prev != prev_model {
                            return Ok(Some((si, format!("tx {t}: read-modify-write saw {got_prev}, specification {prev_model}"))));
                        }
                        if v != 0 && which == 1 && ret_new.map(|b| b.to_vec()) != Some(conc.val(v)) {
                            return Ok(Some((si, format!("tx {t}: update_fetch did not return the new value"))));
                        }
                    }
                    "Commit" => {
                        let outcome = step["outcome"].as_str().unwrap_or("");
                        let got = match txs.remove(&t).ok_or("no tx")? {
                            Tx::Opt(x) => match x.commit().map_err(e)? {
                                Ok(()) => "ok",
                                Err(_) => "conflict",
                            },
                            Tx::Single(x) => {
                                x.commit().map_err(e)?;
                                "ok"
                            }
                        };
                        if got != outcome {
                            return Ok(Some((si, format!("tx {t}: commit returned {got}, specification {outcome}"))));
                        }
                        // committed content as an outside reader sees it (point reads and scan)
                        let store: Vec<u64> = step["store"].as_array().map(|a| a.iter().map(|x| x.as_u64().unwrap_or(0)).collect()).unwrap_or_default();
                        let snap = inner_db.snapshot();
                        for (i, exp) in store.iter().enumerate() {
                            let cell = cell_of(i as u64 + 1);
                            let ks = if cell.1 == 0 { &ks1 } else { &ks2 };
                            let key = conc.key(i as u64 + 1 - cell.1);
                            let g = ks.get(&key).map_err(e)?.map_or(0, |b| conc.unval(&b));
                            let s = snap.get(ks, &key).map_err(e)?.map_or(0, |b| conc.unval(&b));
                            if g != *exp || s != *exp {
                                return Ok(Some((si, format!("after commit of tx {t}: key {} reads {g} (snapshot {s}), specification {exp}", i + 1))));
                            }
                        }
                    }
                    "Helper" => {
                        // single-operation helpers of the transactional keyspace
                        let mk = step["k"].as_u64().unwrap();
                        let cell = cell_of(mk);
                        let k = conc.key(mk - cell.1);
                        let v = step["v"].as_u64().unwrap_or(0);
                        let kind = step["kind"].as_str().unwrap_or("");
                        let prev_model = step["prev"].as_u64().unwrap_or(0);
                        let prev: Option<Option<fjall::UserValue>> = match (&oks, &sks) {
                            (Some(_), _) => {
                                let kk = if cell.1 == 0 { oks.as_ref().unwrap() } else { oks2.as_ref().unwrap() };
                                match kind {
                                    "insert" => { kk.insert(k, conc.val(v)).map_err(e)?; None }
                                    "remove" => { kk.remove(k).map_err(e)?; None }
                                    "take" => Some(kk.take(k).map_err(e)?),
                                    _ => {
                                        let nv = conc.val(v);
                                        if (args.seed + si as u64) % 2 == 0 {
                                            Some(kk.fetch_update(k, |_| Some(nv.clone().into())).map_err(e)?)
                                        } else {
                                            let mut seen = None;
                                            let r = kk.update_fetch(k, |p| { seen = p.cloned(); Some(nv.clone().into()) }).map_err(e)?;
                                            if r.map(|b| b.to_vec()) != Some(conc.val(v)) {
                                                return Ok(Some((si, "helper update_fetch did not return the new value".into())));
                                            }
                                            Some(seen)
                                        }
                                    }
                                }
                            }
                            (_, Some(_)) => {
                                let kk = if cell.1 == 0 { sks.as_ref().unwrap() } else { sks2.as_ref().unwrap() };
                                match kind {
                                    "insert" => { kk.insert(k, conc.val(v)).map_err(e)?; None }
                                    "remove" => { kk.remove(k).map_err(e)?; None }
                                    "take" => Some(kk.take(k).map_err(e)?),
                                    _ => {
                                        let nv = conc.val(v);
                                        Some(kk.fetch_update(k, |_| Some(nv.clone().into())).map_err(e)?)
                                    }
                                }
                            }
                            _ => unreachable!(),
                        };
                        if let Some(p) = prev {
                            let got_prev = p.map_or(0, |b| conc.unval(&b));
                            if got_prev != prev_model {
                                return Ok(Some((si, format!("helper {kind}: previous value {got_prev}, specification {prev_model}"))));
                            }
                        }
                        let store: Vec<u64> = step["store"].as_array().map(|a| a.iter().map(|x| x.as_u64().unwrap_or(0)).collect()).unwrap_or_default();
                        for (i, exp) in store.iter().enumerate() {
                            let cell = cell_of(i as u64 + 1);
                            let ks = if cell.1 == 0 { &ks1 } else { &ks2 };
                            let key = conc.key(i as u64 + 1 - cell.1);
                            let g = ks.get(&key).map_err(e)?.map_or(0, |b| conc.unval(&b));
                            if g != *exp {
                                return Ok(Some((si, format!("after helper {kind}: key {} reads {g}, specification {exp}", i + 1))));
                            }
                        }
                    }
                    "Rollback" => {
                        match txs.remove(&t).ok_or("no tx")? {
                            Tx::Opt(x) => x.rollback(),
                            Tx::Single(x) => x.rollback(),
                        }
                    }
                    "GC" => inner_db.supervisor.snapshot_tracker.verif_gc(),
                    "Upgrade" => {
                        // any version upgrade: flush of an unrelated keyspace
                        z.insert("u", "u").map_err(e)?;
                        z.rotate_memtable().map_err(e)?;
                        while inner_db.verif_step(0).map_err(e)?.is_some() {}
                    }
                    _ => {}
                }
                // every open transaction holds exactly one registration in the snapshot tracker
                // (iterators and outside snapshots of this step are closed by now)
                let open = inner_db.supervisor.snapshot_tracker.open_snapshots();
                if open != txs.len() {
                    return Ok(Some((si, format!(
                        "snapshot tracker counts {open} open snapshots, but {} transactions are open (a live transaction's snapshot is no longer protected)",
                        txs.len()
                    ))));
                }
                out_check(&txs);
            }
            drop(txs);
            Ok(None)
        }));
        match r {
            Ok(Ok(v)) => viol = v,
            Ok(Err(e)) => viol = Some((0, format!("harness/API error: {e}"))),
            Err(p) => {
                let msg = p.downcast_ref::<String>().cloned().or_else(|| p.downcast_ref::<&str>().map(|s| s.to_string())).unwrap_or_default();
                viol = Some((0, format!("panic: {msg}")));
            }
        }
        out.steps += steps.len() as u64;
        if let Some((si, msg)) = viol {
            let rp = args.out_dir.join(format!("tx_{}_{}.json", args.property, bi));
            let doc = json!({"property": args.property, "kind": "tx-replay", "single_writer": args.single_writer,
                "behaviour_index": bi, "failing_step": si, "divergence": msg, "seed": args.seed ^ bi as u64,
                "variant": variant.describe(), "behaviour": steps});
            std::fs::write(&rp, serde_json::to_string_pretty(&doc).unwrap()).ok();
            out.violations.push(json!({"replay": rp.to_string_lossy(), "step": si, "first": doc["divergence"]}));
        } else if out.samples.len() < 2 {
            out.samples.push(json!({"single_writer": args.single_writer, "steps": steps}));
        }
        let _ = std::fs::remove_dir_all(&dir);
    }
    let _ = &mut kf_seen;
    let _ = std::fs::remove_dir_all(&root);
    out
}

fn out_check(_txs: &BTreeMap<u64, Tx>) {}
