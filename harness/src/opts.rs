//! C16: keyspace options chosen at creation stay in force.
//! Replays behaviours of FjallOptions (create / open-existing with other options / write /
//! delete / re-create / reopen).  Every abstract configuration class of the model is
//! concretised with pseudo-random option values of that class (policy vectors of length 1,
//! 2..6, 7, 255; extreme numbers; both strategies with every parameter; key-value separation
//! on/off).  After every step, for every live keyspace, the configuration in force - the
//! `Keyspace.config` struct, the lsm-tree configuration actually applied to the tree, and
//! behavioural witnesses (journal flush on write, rotation request size) - is compared with the
//! configuration the keyspace was created with.

use crate::util::{self, Outcome};
use fjall::config::{
    BlockSizePolicy, BloomConstructionPolicy, CompressionPolicy, FilterPolicy, FilterPolicyEntry,
    HashRatioPolicy, PartitioningPolicy, PinningPolicy, RestartIntervalPolicy,
};
use fjall::{CompressionType, Database, Keyspace, KeyspaceCreateOptions, KvSeparationOptions};
use lsm_tree::AbstractTree;
use rand::{rngs::StdRng, Rng, SeedableRng};
use serde_json::{json, Value};
use std::collections::BTreeMap;
use std::path::PathBuf;
use std::sync::Arc;

pub struct OptsArgs {
    pub file: PathBuf,
    pub out_dir: PathBuf,
    pub seed: u64,
}

/// What the harness chose for one keyspace incarnation, as the strings the observation yields.
#[derive(Clone)]
struct Chosen {
    expect: BTreeMap<String, String>,
    mem: u64,
    manual: bool,
    /// the option rows the stored form of this configuration consists of
    rows: std::collections::BTreeSet<String>,
}

fn plen(rng: &mut StdRng, class: &str) -> usize {
    match class {
        "p1" => 1,
        "p2" => rng.gen_range(2..=6),
        "p3" => 7,
        _ => 255,
    }
}

fn any_f32(rng: &mut StdRng) -> f32 {
    match rng.gen_range(0..8) {
        0 => 0.0,
        1 => 1.0,
        2 => f32::MIN_POSITIVE,
        3 => 0.000_1,
        4 => 8.0,
        _ => rng.gen_range(0.0f32..16.0),
    }
}

fn any_u64(rng: &mut StdRng) -> u64 {
    match rng.gen_range(0..6) {
        0 => 1,
        1 => u64::MAX,
        2 => 64 * 1024 * 1024,
        3 => u64::from(u32::MAX) + 1,
        _ => rng.gen(),
    }
}

fn hexv(b: &[u8]) -> String {
    b.iter().map(|x| format!("{x:02x}")).collect()
}

fn strategy_descr(s: &Arc<dyn lsm_tree::compaction::CompactionStrategy + Send + Sync>) -> String {
    let mut cfg: Vec<String> = s
        .get_config()
        .into_iter()
        .map(|(k, v)| format!("{}={}", String::from_utf8_lossy(&k), hexv(&v)))
        .collect();
    cfg.sort();
    format!("{}[{}]", s.get_name(), cfg.join(","))
}

/// Concretises an abstract configuration; returns the options and what must be observed.
fn concretise(cfg: &Value, seed: u64) -> (KeyspaceCreateOptions, Chosen) {
    let mut rng = StdRng::seed_from_u64(seed);
    let pol = cfg["pol"].as_str().unwrap_or("p1").to_string();
    let mut e: BTreeMap<String, String> = BTreeMap::new();
    let mut o = KeyspaceCreateOptions::default();

    let n = plen(&mut rng, &pol);
    let p = BlockSizePolicy::new((0..n).map(|_| rng.gen_range(1024u32..=1024 * 1024)).collect::<Vec<_>>());
    e.insert("data_block_size_policy".into(), format!("{p:?}"));
    o = o.data_block_size_policy(p);

    let n = plen(&mut rng, &pol);
    let p = RestartIntervalPolicy::new((0..n).map(|_| rng.gen_range(1u8..=255)).collect::<Vec<_>>());
    e.insert("data_block_restart_interval_policy".into(), format!("{p:?}"));
    o = o.data_block_restart_interval_policy(p);

    let n = plen(&mut rng, &pol);
    let p = HashRatioPolicy::new((0..n).map(|_| any_f32(&mut rng)).collect::<Vec<_>>());
    e.insert("data_block_hash_ratio_policy".into(), format!("{p:?}"));
    o = o.data_block_hash_ratio_policy(p);

    let n = plen(&mut rng, &pol);
    let p = PinningPolicy::new((0..n).map(|_| rng.gen_bool(0.5)).collect::<Vec<_>>());
    e.insert("filter_block_pinning_policy".into(), format!("{p:?}"));
    o = o.filter_block_pinning_policy(p);

    let n = plen(&mut rng, &pol);
    let p = PinningPolicy::new((0..n).map(|_| rng.gen_bool(0.5)).collect::<Vec<_>>());
    e.insert("index_block_pinning_policy".into(), format!("{p:?}"));
    o = o.index_block_pinning_policy(p);

    let n = plen(&mut rng, &pol);
    let p = PartitioningPolicy::new((0..n).map(|_| rng.gen_bool(0.5)).collect::<Vec<_>>());
    e.insert("filter_block_partitioning_policy".into(), format!("{p:?}"));
    o = o.filter_block_partitioning_policy(p);

    let n = plen(&mut rng, &pol);
    let p = PartitioningPolicy::new((0..n).map(|_| rng.gen_bool(0.5)).collect::<Vec<_>>());
    e.insert("index_block_partitioning_policy".into(), format!("{p:?}"));
    o = o.index_block_partitioning_policy(p);

    let n = plen(&mut rng, &pol);
    let p = FilterPolicy::new(
        (0..n)
            .map(|_| match rng.gen_range(0..3) {
                0 => FilterPolicyEntry::None,
                1 => FilterPolicyEntry::Bloom(BloomConstructionPolicy::BitsPerKey(any_f32(&mut rng))),
                _ => FilterPolicyEntry::Bloom(BloomConstructionPolicy::FalsePositiveRate(any_f32(&mut rng))),
            })
            .collect::<Vec<_>>(),
    );
    e.insert("filter_policy".into(), format!("{p:?}"));
    o = o.filter_policy(p);

    let comp = |rng: &mut StdRng| if rng.gen_bool(0.5) { CompressionType::None } else { CompressionType::Lz4 };
    let n = plen(&mut rng, &pol);
    let p = CompressionPolicy::new((0..n).map(|_| comp(&mut rng)).collect::<Vec<_>>());
    e.insert("data_block_compression_policy".into(), format!("{p:?}"));
    o = o.data_block_compression_policy(p);

    let n = plen(&mut rng, &pol);
    let p = CompressionPolicy::new((0..n).map(|_| comp(&mut rng)).collect::<Vec<_>>());
    e.insert("index_block_compression_policy".into(), format!("{p:?}"));
    o = o.index_block_compression_policy(p);

    let eprh = rng.gen_bool(0.5);
    e.insert("expect_point_read_hits".into(), format!("{eprh}"));
    o = o.expect_point_read_hits(eprh);

    let mem = match cfg["mem"].as_str().unwrap_or("m1") {
        "m1" => rng.gen_range(1u64..4096),
        "m2" => rng.gen_range(8u64 * 1024 * 1024..256 * 1024 * 1024),
        _ => {
            if rng.gen_bool(0.5) {
                0
            } else {
                u64::MAX
            }
        }
    };
    o = o.max_memtable_size(mem);
    let manual = cfg["manual"].as_bool().unwrap_or(false);
    o = o.manual_journal_persist(manual);
    e.insert("private".into(), format!("{:?}", (mem, manual, 7u8)));

    let strat: Arc<dyn lsm_tree::compaction::CompactionStrategy + Send + Sync> = if cfg["strat"] == "leveled" {
        match cfg["sp"].as_str().unwrap_or("l1") {
            "l1" => Arc::new(fjall::compaction::Leveled::default()),
            "l2" => {
                let n = rng.gen_range(1..=6);
                Arc::new(
                    fjall::compaction::Leveled::default()
                        .with_l0_threshold(rng.gen_range(1..=255))
                        .with_table_target_size(any_u64(&mut rng))
                        .with_level_ratio_policy((0..n).map(|_| any_f32(&mut rng)).collect()),
                )
            }
            "l4" => Arc::new(
                // one more than the length byte of the stored form can express
                fjall::compaction::Leveled::default().with_level_ratio_policy((0..256).map(|_| any_f32(&mut rng)).collect()),
            ),
            _ => {
                let n = if rng.gen_bool(0.5) { 255 } else { 7 };
                Arc::new(
                    fjall::compaction::Leveled::default()
                        .with_l0_threshold(if rng.gen_bool(0.5) { 255 } else { 1 })
                        .with_table_target_size(if rng.gen_bool(0.5) { u64::MAX } else { 1 })
                        .with_level_ratio_policy((0..n).map(|_| any_f32(&mut rng)).collect()),
                )
            }
        }
    } else {
        let limit = any_u64(&mut rng);
        let ttl = if cfg["sp"] == "ttl" {
            Some(match rng.gen_range(0..3) {
                0 => 0,
                1 => u64::MAX,
                _ => rng.gen(),
            })
        } else {
            None
        };
        Arc::new(fjall::compaction::Fifo::new(limit, ttl))
    };
    e.insert("compaction_strategy".into(), strategy_descr(&strat));
    o = o.compaction_strategy(strat);

    let blob = match cfg["blob"].as_str().unwrap_or("none") {
        "none" => None,
        "b1" => Some(KvSeparationOptions::default()),
        _ => Some(
            KvSeparationOptions::default()
                .compression(comp(&mut rng))
                .file_target_size(any_u64(&mut rng))
                .separation_threshold(match rng.gen_range(0..4) {
                    0 => 1,
                    1 => u32::MAX,
                    _ => rng.gen(),
                })
                .staleness_threshold(any_f32(&mut rng))
                .age_cutoff(any_f32(&mut rng)),
        ),
    };
    e.insert("kv_separation_opts".into(), format!("{blob:?}"));
    e.insert("is_kv_separated".into(), format!("{}", blob.is_some()));
    o = o.with_kv_separation(blob);

    let mut rows: std::collections::BTreeSet<String> = [
        "compaction_strategy", "data_block_compression_policy", "data_block_hash_ratio_policy",
        "data_block_restart_interval_policy", "data_block_size_policy", "expect_point_read_hits",
        "filter_block_partitioning_policy", "filter_block_pinning_policy", "filter_policy",
        "index_block_compression_policy", "index_block_partitioning_policy", "index_block_pinning_policy",
        "index_block_restart_interval_policy", "level_count", "manual_journal_persist", "max_memtable_size", "version",
    ].iter().map(|s| s.to_string()).collect();
    if cfg["strat"] == "leveled" {
        for r in ["leveled_l0_threshold", "leveled_target_size", "leveled_level_ratio_policy"] {
            rows.insert(r.into());
        }
    } else {
        for r in ["fifo_limit", "fifo_ttl", "fifo_ttl_seconds"] {
            rows.insert(r.into());
        }
    }
    if cfg["blob"] != "none" {
        for r in ["blob", "blob_age_cutoff", "blob_compression", "blob_file_target_size", "blob_separation_threshold", "blob_staleness_threshold"] {
            rows.insert(r.into());
        }
    }
    (o, Chosen { expect: e, mem, manual, rows })
}

/// The configuration in force, from the keyspace's own struct and from the tree it drives.
fn observe(ks: &Keyspace) -> BTreeMap<String, String> {
    let c = &ks.config;
    let t = ks.tree.tree_config();
    let mut m = BTreeMap::new();
    let mut both = |name: &str, a: String, b: String| {
        m.insert(name.to_string(), a);
        m.insert(format!("tree.{name}"), b);
    };
    both("data_block_size_policy", format!("{:?}", c.data_block_size_policy), format!("{:?}", t.data_block_size_policy));
    both("data_block_restart_interval_policy", format!("{:?}", c.data_block_restart_interval_policy), format!("{:?}", t.data_block_restart_interval_policy));
    both("data_block_hash_ratio_policy", format!("{:?}", c.data_block_hash_ratio_policy), format!("{:?}", t.data_block_hash_ratio_policy));
    both("filter_block_pinning_policy", format!("{:?}", c.filter_block_pinning_policy), format!("{:?}", t.filter_block_pinning_policy));
    both("index_block_pinning_policy", format!("{:?}", c.index_block_pinning_policy), format!("{:?}", t.index_block_pinning_policy));
    both("filter_block_partitioning_policy", format!("{:?}", c.filter_block_partitioning_policy), format!("{:?}", t.filter_block_partitioning_policy));
    both("index_block_partitioning_policy", format!("{:?}", c.index_block_partitioning_policy), format!("{:?}", t.index_block_partitioning_policy));
    both("filter_policy", format!("{:?}", c.filter_policy), format!("{:?}", t.filter_policy));
    both("data_block_compression_policy", format!("{:?}", c.data_block_compression_policy), format!("{:?}", t.data_block_compression_policy));
    both("index_block_compression_policy", format!("{:?}", c.index_block_compression_policy), format!("{:?}", t.index_block_compression_policy));
    both("kv_separation_opts", format!("{:?}", c.kv_separation_opts), format!("{:?}", t.kv_separation_opts));
    m.insert("expect_point_read_hits".into(), format!("{}", c.expect_point_read_hits));
    m.insert("private".into(), format!("{:?}", ks.verif_private_opts()));
    m.insert("compaction_strategy".into(), strategy_descr(&c.compaction_strategy));
    m.insert("is_kv_separated".into(), format!("{}", ks.is_kv_separated()));
    m
}

fn compare(want: &BTreeMap<String, String>, got: &BTreeMap<String, String>) -> Option<String> {
    for (k, w) in want {
        for key in [k.clone(), format!("tree.{k}")] {
            if let Some(g) = got.get(&key) {
                if g != w {
                    let cut = |s: &String| if s.len() > 160 { format!("{}...({} chars)", &s[..160], s.len()) } else { s.clone() };
                    return Some(format!("{key}: in force {} , created with {}", cut(g), cut(w)));
                }
            } else if key == *k {
                return Some(format!("{key}: not observable"));
            }
        }
    }
    None
}

fn replay_one(beh: &[Value], dir: &std::path::Path, seed: u64, steps: &mut u64, notes: &mut BTreeMap<String, u64>) -> Result<(), (usize, String)> {
    let open = |d: &std::path::Path| Database::builder(d).worker_threads_unchecked(0).open();
    let mut db = open(dir).map_err(|e| (0usize, format!("open: {e:?}")))?;
    let mut handles: BTreeMap<String, Keyspace> = BTreeMap::new();
    let mut created: BTreeMap<String, Chosen> = BTreeMap::new();
    let mut incarnation = 0u64;
    for (si, step) in beh.iter().enumerate() {
        *steps += 1;
        let name = step["n"].as_str().unwrap_or("").to_string();
        match step["a"].as_str().unwrap_or("") {
            "Create" => {
                incarnation += 1;
                let (o, ch) = concretise(&step["c"], seed.wrapping_mul(1000).wrapping_add(incarnation));
                let ks = db.keyspace(&name, || o).map_err(|e| (si, format!("keyspace(): {e:?}")))?;
                handles.insert(name.clone(), ks);
                created.insert(name.clone(), ch);
                *notes.entry(format!("class {}/{}/{}/{}/{}", step["c"]["strat"].as_str().unwrap_or(""), step["c"]["sp"].as_str().unwrap_or(""), step["c"]["blob"].as_str().unwrap_or(""), step["c"]["mem"].as_str().unwrap_or(""), step["c"]["pol"].as_str().unwrap_or(""))).or_insert(0) += 1;
            }
            "OpenExisting" => {
                incarnation += 1;
                // different options on purpose
                let (o, _) = concretise(&step["c"], seed.wrapping_mul(1000).wrapping_add(incarnation).wrapping_add(77));
                let ks = db.keyspace(&name, || o).map_err(|e| (si, format!("keyspace(): {e:?}")))?;
                if let Some(ch) = created.get(&name) {
                    if let Some(d) = compare(&ch.expect, &observe(&ks)) {
                        return Err((si, format!("keyspace({name:?}) with other options on the existing keyspace: {d}")));
                    }
                }
                handles.insert(name.clone(), ks);
            }
            "Write" => {
                if let (Some(ks), Some(ch)) = (handles.get(&name), created.get(&name)) {
                    // behavioural witnesses of max_memtable_size and manual_journal_persist
                    // (no maintenance is ever executed here: flushing with extreme filter /
                    // strategy parameters is lsm-tree's business, not the option round trip's)
                    let rot_before = db.verif_pending().iter().filter(|m| m.contains("Rotate")).count();
                    crate::adv::start(dir, None, false, false, None);
                    let val = vec![b'w'; 5000];
                    let r = ks.insert(format!("w{si}").as_bytes(), &val);
                    let ctl = crate::adv::stop();
                    r.map_err(|e| (si, format!("insert: {e:?}")))?;
                    let journal_written = ctl.map(|c| c.log.iter().any(|e| e.path.ends_with(".jnl") && e.op == "write" && e.ret > 0)).unwrap_or(false);
                    if journal_written == ch.manual {
                        return Err((si, format!("keyspace {name:?} created with manual_journal_persist = {}: the insert {} the journal buffer to the OS", ch.manual, if journal_written { "flushed" } else { "did not flush" })));
                    }
                    let rot = db.verif_pending().iter().filter(|m| m.contains("Rotate")).count() > rot_before;
                    let size = ks.tree.active_memtable().size();
                    let want_rot = size > ch.mem;
                    if rot != want_rot {
                        return Err((si, format!("keyspace {name:?} created with max_memtable_size = {}: memtable holds {size} bytes after the write and a rotation was {}requested", ch.mem, if rot { "" } else { "not " })));
                    }
                }
            }
            "Delete" => {
                if let Some(ks) = handles.remove(&name) {
                    db.delete_keyspace(ks).map_err(|e| (si, format!("delete_keyspace: {e:?}")))?;
                }
                created.remove(&name);
            }
            "MetaCompact" | "JournalEvict" => {
                // the meta tree compacts itself on every create / delete; journal eviction does
                // not touch the stored options
            }
            "Reopen" => {
                handles.clear();
                drop(db);
                db = open(dir).map_err(|e| (si, format!("reopen: {e:?}")))?;
                // existing keyspaces are opened with yet other options
                for n in created.keys() {
                    incarnation += 1;
                    let (o, _) = concretise(&json!({"strat": "fifo", "sp": "nottl", "blob": "b2", "manual": true, "mem": "m3", "pol": "p2"}), seed.wrapping_add(incarnation));
                    if !db.keyspace_exists(n) {
                        return Err((si, format!("keyspace {n:?} does not exist after reopen")));
                    }
                    let ks = db.keyspace(n, || o).map_err(|e| (si, format!("keyspace(): {e:?}")))?;
                    handles.insert(n.clone(), ks);
                }
            }
            _ => {}
        }
        // the configuration in force of every live keyspace
        let model_live: Vec<String> = step["live"].as_array().map(|a| a.iter().filter_map(|x| x.as_str().map(String::from)).collect()).unwrap_or_default();
        let mut real_live: Vec<String> = created.keys().cloned().collect();
        real_live.sort();
        let mut ml = model_live.clone();
        ml.sort();
        if ml != real_live {
            return Err((si, format!("live keyspaces {real_live:?}, the specification says {ml:?}")));
        }
        for (n, ch) in &created {
            let Some(ks) = handles.get(n) else { continue };
            if let Some(d) = compare(&ch.expect, &observe(ks)) {
                return Err((si, format!("keyspace {n:?} after {}: {d}", step["a"].as_str().unwrap_or(""))));
            }
        }
        // the stored form (FjallOptions: StoredExact, NoDeadRows): the meta keyspace holds, for
        // every live keyspace, exactly the rows of its configuration plus its name row, and
        // nothing at all for any other id
        let mut stored: BTreeMap<u64, std::collections::BTreeSet<String>> = BTreeMap::new();
        for (k, _) in db.verif_meta_rows() {
            if k.len() >= 9 && (k[0] == b'c' || k[0] == b'n') {
                let id = u64::from_be_bytes(k[1..9].try_into().unwrap());
                let name = if k[0] == b'n' { "<name>".to_string() } else { String::from_utf8_lossy(&k[9..]).to_string() };
                stored.entry(id).or_default().insert(name);
            }
        }
        let mut live_ids = std::collections::BTreeSet::new();
        for (n, ch) in &created {
            let Some(ks) = handles.get(n) else { continue };
            live_ids.insert(ks.id());
            let mut want = ch.rows.clone();
            want.insert("<name>".into());
            let got = stored.get(&ks.id()).cloned().unwrap_or_default();
            if got != want {
                let extra: Vec<&String> = got.difference(&want).collect();
                let missing: Vec<&String> = want.difference(&got).collect();
                return Err((si, format!("stored form of keyspace {n:?} (id {}) after {}: rows {extra:?} should not be there, rows {missing:?} are missing", ks.id(), step["a"].as_str().unwrap_or(""))));
            }
        }
        if handles.len() == created.len() {
            for (id, rows) in &stored {
                if !live_ids.contains(id) {
                    return Err((si, format!("the meta keyspace still holds rows {rows:?} of id {id}, which belongs to no live keyspace (after {})", step["a"].as_str().unwrap_or(""))));
                }
            }
        }
        // ids: the model's hand-out (never below 2 after a recovery, never one still referenced)
        if let Some(ids) = step["ids"].as_object() {
            for (n, want) in ids {
                if let Some(ks) = handles.get(n) {
                    if Some(ks.id()) != want.as_u64() {
                        return Err((si, format!("keyspace {n:?} has id {}, the specification says {want}", ks.id())));
                    }
                }
            }
        }
    }
    Ok(())
}

pub fn run_opts(args: &OptsArgs) -> Outcome {
    let mut out = Outcome::default();
    let root = util::scratch_root();
    let text = std::fs::read_to_string(&args.file).unwrap_or_default();
    let mut notes: BTreeMap<String, u64> = BTreeMap::new();
    for (bi, line) in text.lines().enumerate() {
        let Ok(beh) = serde_json::from_str::<Vec<Value>>(line) else { continue };
        let dir = util::fresh_dir(&root, &format!("opts{bi}"));
        let mut steps = 0u64;
        let seed = args.seed.wrapping_mul(100_003).wrapping_add(bi as u64);
        let r = std::panic::catch_unwind(std::panic::AssertUnwindSafe(|| replay_one(&beh, &dir, seed, &mut steps, &mut notes)));
        out.behaviours += 1;
        out.steps += steps;
        let acts: Vec<String> = beh.iter().map(|s| format!("{}({})", s["a"].as_str().unwrap_or(""), s["n"].as_str().unwrap_or(""))).collect();
        out.distinct.insert(util::hash_str(&format!("{}{}", acts.join(","), beh.iter().map(|s| s["c"].to_string()).collect::<String>())));
        if bi == 0 {
            out.samples.push(json!({"behaviour": acts.join(" "), "first_configuration": beh.iter().find(|s| s["a"] == "Create").map(|s| s["c"].clone())}));
        }
        let r = match r {
            Ok(r) => r,
            Err(p) => Err((steps as usize, format!("panic: {}", p.downcast_ref::<String>().cloned().or_else(|| p.downcast_ref::<&str>().map(|s| s.to_string())).unwrap_or_default()))),
        };
        if let Err((si, why)) = r {
            let p = args.out_dir.join(format!("cex_C16_opts_{bi}.json"));
            let _ = std::fs::write(&p, serde_json::to_string_pretty(&json!({"kind": "opts-replay", "seed": seed, "step": si, "why": why, "behaviour": beh})).unwrap());
            out.violations.push(json!({"step": si, "first": why, "replay": p.to_string_lossy()}));
        }
        let _ = std::fs::remove_dir_all(&dir);
    }
    out.notes.push(format!("configuration classes created: {}", notes.len()));
    out.samples.push(json!({"classes": notes}));
    let _ = std::fs::remove_dir_all(&root);
    out
}
