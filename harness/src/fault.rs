//! Fault campaigns (C13): an injected error on the n-th journal write / flush / sync.
//!  - `run_fault_seq`: for every n of a specification behaviour and every error kind: the call in
//!    flight must report an error, afterwards no write of any kind may be acknowledged, and a
//!    reopen without faults must recover exactly the state before the failed call (or the
//!    failed call as a whole).
//!  - `run_fault_mt`: several writer threads, one fault; the trace of the writers' critical
//!    sections (hooks) is written out for validation against FjallJournal (FailStop).

use crate::adv::{self, Fault, FaultKind};
use crate::crash;
use crate::store::{Variant, World};
use crate::util::{fresh_dir, hash_str, Concretizer, Outcome};
use serde_json::{json, Value};
use std::path::PathBuf;

pub struct FaultArgs {
    pub file: PathBuf,
    pub out_dir: PathBuf,
    pub property: String,
    pub seed: u64,
    pub nkeys: u64,
    pub allowed_kf: Vec<String>,
    pub max_behaviours: u64,
    pub stride: u64,
}

fn is_write_action(a: &str) -> bool {
    matches!(a, "Insert" | "Remove" | "Batch" | "Clear" | "Persist")
}

fn kind_name(k: &FaultKind) -> &'static str {
    match k {
        FaultKind::Eio => "EIO",
        FaultKind::Enospc => "ENOSPC",
        FaultKind::ShortThenEio => "short-write+EIO",
    }
}

pub fn run_fault_seq(args: &FaultArgs) -> Outcome {
    let mut out = Outcome::default();
    let root = crate::util::scratch_root();
    let text = std::fs::read_to_string(&args.file).expect("read behaviours");
    let mut kf_seen: std::collections::BTreeMap<String, String> = Default::default();
    let mut points = 0u64;
    for (bi, line) in text.lines().enumerate() {
        if line.trim().is_empty() {
            continue;
        }
        if args.max_behaviours > 0 && out.behaviours >= args.max_behaviours {
            break;
        }
        let steps: Vec<Value> = match serde_json::from_str::<Value>(line) {
            Ok(Value::Array(a)) => a,
            _ => continue,
        };
        let variant = Variant::from_index(args.seed.wrapping_add(bi as u64) % 16, &[]);
        let seed = args.seed ^ (bi as u64);
        out.behaviours += 1;
        let sig: String = steps.iter().map(|s| s["act"].to_string()).collect();
        out.distinct.insert(hash_str(&sig));

        // pass 0: count journal calls
        let dir = fresh_dir(&root, &format!("f{bi}"));
        adv::start(&dir, None, false, false, None);
        let nj = {
            let mut w = match World::new(dir.clone(), variant.clone(), seed, args.nkeys) {
                Ok(w) => w,
                Err(_) => {
                    adv::stop();
                    continue;
                }
            };
            let mut prev: Option<Value> = None;
            for step in &steps {
                if w.exec(&step["act"], prev.as_ref()).is_err() {
                    break;
                }
                prev = Some(step["st"].clone());
            }
            w.close();
            let ctl = adv::stop().unwrap();
            ctl.log.iter().map(|e| e.jn).max().unwrap_or(0)
        };
        let _ = std::fs::remove_dir_all(&dir);

        let mut first_bad: Option<Value> = None;
        let mut jn = 1;
        while jn <= nj {
            for kind in [FaultKind::Eio, FaultKind::Enospc, FaultKind::ShortThenEio] {
                points += 1;
                let dir = fresh_dir(&root, &format!("f{bi}_{jn}"));
                adv::start(
                    &dir,
                    None,
                    false,
                    false,
                    Some(Fault { jn, kind: kind.clone(), pending_eio: false, fired: false }),
                );
                let mut problems: Vec<String> = vec![];
                let mut fault_step: Option<usize> = None;
                let mut acked_before: i64 = -1; // index of last step completed before the fault
                let mut skip_point = false;
                let opened = std::panic::catch_unwind(std::panic::AssertUnwindSafe(|| {
                    World::new(dir.clone(), variant.clone(), seed, args.nkeys)
                }));
                let mut w = match opened {
                    Ok(Ok(w)) => Some(w),
                    _ => None, // fault during creation: open failed, nothing to check here
                };
                if let Some(w) = w.as_mut() {
                    let mut prev: Option<Value> = None;
                    for (si, step) in steps.iter().enumerate() {
                        let act = &step["act"];
                        let a = act["a"].as_str().unwrap_or("");
                        let fired_before = adv::fault_fired();
                        if fired_before && !is_write_action(a) {
                            // after the failure only the calls the property talks about are
                            // issued (they must all be refused); everything else is skipped
                            if a == "Reopen" {
                                break;
                            }
                            continue;
                        }
                        let r = std::panic::catch_unwind(std::panic::AssertUnwindSafe(|| w.exec(act, prev.as_ref())));
                        let fired_after = adv::fault_fired();
                        let ok = matches!(r, Ok(Ok(())));
                        if !fired_before && fired_after {
                            fault_step = Some(si);
                            if a == "Reopen" {
                                // the failure hit Journal::drop's final sync or the recovery of the
                                // reopen itself: not a write call; this fault point is not examined
                                fault_step = None;
                                skip_point = true;
                                break;
                            }
                            if ok && is_write_action(a) {
                                problems.push(format!(
                                    "step {si} {act}: journal call #{jn} failed with {} but the call returned Ok",
                                    kind_name(&kind)
                                ));
                            }
                        } else if fired_before && ok {
                            problems.push(format!(
                                "step {si} {act} was acknowledged although an earlier journal I/O failure occurred (step {:?})",
                                fault_step
                            ));
                        }
                        if !fired_after && ok {
                            acked_before = si as i64;
                        }
                        if !ok && !fired_after {
                            // unrelated failure: stop this run
                            break;
                        }
                        if !fired_after {
                            prev = Some(step["st"].clone());
                        }
                    }
                }
                let _ = skip_point;
                // drop with a watchdog (a drop that never returns is a violation of C17)
                if let Some(mut w) = w.take() {
                    let (tx, rx) = std::sync::mpsc::channel();
                    let h = std::thread::spawn(move || {
                        w.close();
                        let _ = tx.send(());
                    });
                    if rx.recv_timeout(std::time::Duration::from_secs(20)).is_err() {
                        problems.push("dropping the database after the fault did not return within 20 s".into());
                    } else {
                        let _ = h.join();
                    }
                }
                adv::stop();
                // reopen without faults: acknowledged-before-fault state, or the failed step as a whole
                if let Some(fs) = fault_step {
                    let conc = Concretizer::new(variant.key_scheme, variant.val_scheme, seed);
                    match crash::project_image_pub(&dir, &variant, &conc, args.nkeys) {
                        Err(e) => problems.push(format!("reopen after the fault failed: {e}")),
                        Ok(rec) => {
                            let before = if acked_before >= 0 { crash::model_content_pub(&steps[acked_before as usize]["st"]) } else { Default::default() };
                            let whole = crash::model_content_pub(&steps[fs]["st"]);
                            let m1 = crash::matches_state_pub(&rec, &before);
                            let m2 = crash::matches_state_pub(&rec, &whole);
                            if m1.is_err() && m2.is_err() {
                                problems.push(format!(
                                    "after reopen the state is neither the acknowledged state before the failed call ({}) nor the failed call applied as a whole ({})",
                                    m1.unwrap_err(), m2.unwrap_err()
                                ));
                            }
                        }
                    }
                }
                let _ = std::fs::remove_dir_all(&dir);
                if !problems.is_empty() {
                    // known finding D8: batch commit / clear do not poison on a failed append
                    let fs_act = fault_step.map(|s| steps[s]["act"]["a"].as_str().unwrap_or("").to_string()).unwrap_or_default();
                    let is_d8 = (fs_act == "Batch" || fs_act == "Clear")
                        && problems.iter().all(|p| p.contains("was acknowledged although") || p.contains("after reopen the state is neither"));
                    if is_d8 && args.allowed_kf.iter().any(|k| k == "D8") {
                        kf_seen.entry("D8".into()).or_insert(format!(
                            "D8 {} on journal call #{jn} inside {fs_act}: {}", kind_name(&kind), problems[0]
                        ));
                    } else if first_bad.is_none() {
                        first_bad = Some(json!({"journal_call": jn, "kind": kind_name(&kind), "fault_step": fault_step, "problems": problems}));
                    }
                }
            }
            jn += args.stride.max(1);
        }
        if let Some(bad) = first_bad {
            let rp = args.out_dir.join(format!("fault_{}_{}.json", args.property, bi));
            let doc = json!({"property": args.property, "kind": "fault-seq", "behaviour_index": bi,
                "variant": variant.describe(), "seed": seed, "nkeys": args.nkeys, "first_bad": bad, "behaviour": steps});
            std::fs::write(&rp, serde_json::to_string_pretty(&doc).unwrap()).ok();
            out.violations.push(json!({"replay": rp.to_string_lossy(), "step": bad["fault_step"], "first": format!("fault {} at journal call {}: {}", bad["kind"], bad["journal_call"], bad["problems"][0])}));
        }
        if out.samples.len() < 2 {
            out.samples.push(json!({"actions": steps.iter().map(|s| s["act"].clone()).collect::<Vec<_>>(), "journal_calls": nj, "fault_kinds": 3}));
        }
    }
    for (id, msg) in kf_seen {
        out.known.push(json!({"id": id, "example": msg}));
    }
    out.notes.push(format!("fault_points={points}"));
    let _ = std::fs::remove_dir_all(&root);
    out
}

// ------------------------------------------------------------------------------------------
// multi-threaded: writers race, one journal call fails; the hook trace goes to TLC
// ------------------------------------------------------------------------------------------

pub struct FaultMtArgs {
    pub out_dir: PathBuf,
    pub seed: u64,
    pub runs: u64,
    pub threads: u64,
    pub ops_per_thread: u64,
}

/// Returns the list of trace files written (one NDJSON file with Reset events between runs).
pub fn run_fault_mt(args: &FaultMtArgs) -> Outcome {
    use rand::{Rng, SeedableRng};
    let mut out = Outcome::default();
    let root = crate::util::scratch_root();
    let mut rng = rand::rngs::StdRng::seed_from_u64(args.seed);
    let trace_path = args.out_dir.join("fault_mt_trace.ndjson");
    let mut all: Vec<String> = vec![];
    for run in 0..args.runs {
        let dir = fresh_dir(&root, &format!("m{run}"));
        let variant = Variant::from_index(rng.gen_range(0..16), &[]);
        let conc = Concretizer::new(variant.key_scheme, 2, args.seed ^ run);
        // count journal calls of a clean run is not possible with threads: choose the fault
        // position from a window proportional to the op count
        let total_ops = args.threads * args.ops_per_thread;
        let jn = rng.gen_range(2..(total_ops * 2).max(4));
        let kind = match rng.gen_range(0..3) {
            0 => FaultKind::Eio,
            1 => FaultKind::Enospc,
            _ => FaultKind::ShortThenEio,
        };
        let db = match crate::store::open_db(&dir, &variant, &conc) {
            Ok(d) => d,
            Err(_) => continue,
        };
        let ks = db.keyspace("a", || crate::store::ks_options(&variant)).unwrap();
        let ks2 = db.keyspace("b", || crate::store::ks_options(&variant)).unwrap();
        fjall::verif::trace_start();
        fjall::verif::emit("Reset", &[]);
        adv::start(&dir, None, false, false, Some(Fault { jn, kind: kind.clone(), pending_eio: false, fired: false }));
        let mut handles = vec![];
        for t in 0..args.threads {
            let db = db.clone();
            let ks = ks.clone();
            let ks2 = ks2.clone();
            let conc = conc.clone();
            let seed = args.seed ^ (run << 8) ^ t;
            let n = args.ops_per_thread;
            handles.push(std::thread::spawn(move || {
                fjall::verif::set_thread_tag(t + 1);
                let mut rng = rand::rngs::StdRng::seed_from_u64(seed);
                for i in 0..n {
                    let key = conc.key(rng.gen_range(1..=3));
                    // large values bypass the 8 KiB journal buffer so that a short write
                    // really leaves a torn frame in the file
                    let big = rng.gen_range(0..4) == 0;
                    let val = if big { vec![b'x' ^ (i as u8); 20_000] } else { conc.val(1 + (t * n + i) % 80) };
                    let r = match rng.gen_range(0..10) {
                        0..=4 => ks.insert(key, val).is_ok(),
                        5 => ks.remove(key).is_ok(),
                        6 => ks2.clear().is_ok(),
                        7 => {
                            let mut b = db.batch();
                            b.insert(&ks, key.clone(), val.clone());
                            b.insert(&ks2, key, val);
                            b.commit().is_ok()
                        }
                        8 => {
                            fjall::verif::emit("PCall", &[("mode", fjall::verif::F::S("SyncData"))]);
                            let r = db.persist(fjall::PersistMode::SyncData).is_ok();
                            fjall::verif::emit("PRet", &[("ok", fjall::verif::F::B(r))]);
                            r
                        }
                        _ => ks2.insert(key, val).is_ok(),
                    };
                    let _ = r;
                }
            }));
        }
        for h in handles {
            let _ = h.join();
        }
        let fired = adv::fault_fired();
        adv::stop();
        fjall::verif::trace_stop();
        let ev = fjall::verif::trace_take();
        out.behaviours += 1;
        out.steps += ev.len() as u64;
        if fired {
            out.distinct.insert(hash_str(&format!("{run}{jn}")));
        }
        if out.samples.len() < 2 {
            out.samples.push(json!({"threads": args.threads, "fault_journal_call": jn, "kind": kind_name(&kind), "fault_fired": fired,
                "events": ev.len(), "excerpt": ev.iter().take(10).cloned().collect::<Vec<_>>()}));
        }
        all.extend(ev);
        drop(ks);
        drop(ks2);
        drop(db);
        let _ = std::fs::remove_dir_all(&dir);
    }
    std::fs::write(&trace_path, all.join("\n") + "\n").ok();
    out.notes.push(format!("trace={}", trace_path.to_string_lossy()));
    let _ = std::fs::remove_dir_all(&root);
    out
}
