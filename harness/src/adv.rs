//! The I/O adversary: libc entry points defined in this executable take precedence over the
//! C library's for every call made by std / fjall / lsm-tree in this process.  They forward to
//! the kernel with `libc::syscall` and consult a controller that can
//!  - record the file-mutating calls below the database directory,
//!  - take a crash image of the directory before a call (or after the first m bytes of a write),
//!  - make the n-th journal write / sync fail (EIO, ENOSPC, short write followed by EIO).
//! No hook in fjall is involved.

use std::cell::Cell;
use std::ffi::CStr;
use std::path::{Path, PathBuf};
use std::sync::atomic::{AtomicBool, AtomicU64, Ordering};
use std::sync::Mutex;

thread_local! {
    static REENTRANT: Cell<bool> = const { Cell::new(false) };
    /// (offset, length) of the journal write in flight on this thread
    static PENDING_RANGE: Cell<Option<(u64, u64)>> = const { Cell::new(None) };
}

static ACTIVE: AtomicBool = AtomicBool::new(false);
static COUNTER: AtomicU64 = AtomicU64::new(0);
static JCOUNTER: AtomicU64 = AtomicU64::new(0);

#[derive(Clone, Debug)]
pub struct Ev {
    pub n: u64,
    pub op: &'static str,
    pub path: String, // relative to the database directory
    pub len: i64,
    pub ret: i64,
    pub jn: u64,    // index among journal calls (0 = not a journal call)
    pub marker: String,
}

#[derive(Clone, Debug, PartialEq, Eq)]
pub enum FaultKind {
    Eio,
    Enospc,
    /// write half of the bytes, then fail the next journal write with EIO
    ShortThenEio,
}

#[derive(Clone, Debug)]
pub struct Fault {
    /// index among journal calls (write / fsync / fdatasync on *.jnl), 1-based
    pub jn: u64,
    pub kind: FaultKind,
    /// once armed by a short write: fail the next journal write
    pub pending_eio: bool,
    pub fired: bool,
}

pub struct Ctl {
    pub root: PathBuf,
    pub log: Vec<Ev>,
    pub image_dir: Option<PathBuf>,
    /// take an image before every mutating call
    pub image_all: bool,
    /// additionally split journal writes (image after 1 byte, half, len-1)
    pub split_journal_writes: bool,
    pub images: Vec<(u64, String)>, // (call number, label)
    pub fault: Option<Fault>,
    /// per journal file: byte ranges (offset, length) written since the last successful
    /// fsync / fdatasync of that file (journal files are preallocated: a length is no measure
    /// of what is synced)
    pub synced: std::collections::BTreeMap<String, Vec<(u64, u64)>>,
    /// the unsynced ranges as of each image
    pub synced_history: Vec<(u64, std::collections::BTreeMap<String, Vec<(u64, u64)>>)>,
    pub marker: String,
}

static CTL: Mutex<Option<Ctl>> = Mutex::new(None);

pub fn start(root: &Path, image_dir: Option<PathBuf>, image_all: bool, split: bool, fault: Option<Fault>) {
    with_reentrant(|| {
        let mut g = CTL.lock().unwrap();
        *g = Some(Ctl {
            root: root.to_path_buf(),
            log: Vec::new(),
            image_dir,
            image_all,
            split_journal_writes: split,
            images: Vec::new(),
            fault,
            synced: Default::default(),
            synced_history: Vec::new(),
            marker: String::new(),
        });
        COUNTER.store(0, Ordering::SeqCst);
        JCOUNTER.store(0, Ordering::SeqCst);
        ACTIVE.store(true, Ordering::SeqCst);
    });
}

pub fn stop() -> Option<Ctl> {
    ACTIVE.store(false, Ordering::SeqCst);
    with_reentrant(|| CTL.lock().unwrap().take())
}

/// Labels the following calls (operation boundaries of the workload).
pub fn set_marker(m: &str) {
    if !ACTIVE.load(Ordering::Relaxed) {
        return;
    }
    with_reentrant(|| {
        if let Some(c) = CTL.lock().unwrap().as_mut() {
            c.marker = m.to_string();
        }
    });
}

pub fn counter() -> u64 {
    COUNTER.load(Ordering::SeqCst)
}

pub fn fault_fired() -> bool {
    with_reentrant(|| {
        CTL.lock()
            .unwrap()
            .as_ref()
            .and_then(|c| c.fault.as_ref().map(|f| f.fired))
            .unwrap_or(false)
    })
}

fn with_reentrant<T>(f: impl FnOnce() -> T) -> T {
    let prev = REENTRANT.with(|r| r.replace(true));
    let out = f();
    REENTRANT.with(|r| r.set(prev));
    out
}

fn fd_path(fd: libc::c_int) -> Option<PathBuf> {
    let link = format!("/proc/self/fd/{fd}\0");
    let mut buf = [0u8; 4096];
    let n = unsafe {
        libc::syscall(
            libc::SYS_readlink,
            link.as_ptr(),
            buf.as_mut_ptr(),
            buf.len(),
        )
    };
    if n <= 0 {
        return None;
    }
    Some(PathBuf::from(
        String::from_utf8_lossy(&buf[..n as usize]).to_string(),
    ))
}

fn cpath(p: *const libc::c_char) -> Option<PathBuf> {
    if p.is_null() {
        return None;
    }
    let s = unsafe { CStr::from_ptr(p) };
    Some(PathBuf::from(s.to_string_lossy().to_string()))
}

/// Sparse-aware copy of the database directory.
pub fn copy_dir(src: &Path, dst: &Path) -> std::io::Result<()> {
    std::fs::create_dir_all(dst)?;
    for e in std::fs::read_dir(src)? {
        let e = e?;
        let ft = e.file_type()?;
        let to = dst.join(e.file_name());
        if ft.is_dir() {
            copy_dir(&e.path(), &to)?;
        } else if ft.is_file() {
            copy_file_sparse(&e.path(), &to)?;
        }
    }
    Ok(())
}

pub fn copy_file_sparse(src: &Path, dst: &Path) -> std::io::Result<()> {
    use std::io::{Read, Seek, SeekFrom, Write};
    use std::os::fd::AsRawFd;
    let mut f = std::fs::File::open(src)?;
    let len = f.metadata()?.len();
    let mut out = std::fs::File::create(dst)?;
    out.set_len(len)?;
    let fd = f.as_raw_fd();
    let mut pos: i64 = 0;
    let mut buf = vec![0u8; 1 << 16];
    loop {
        let data = unsafe { libc::syscall(libc::SYS_lseek, fd, pos, libc::SEEK_DATA) };
        if data < 0 {
            break; // no more data
        }
        let hole = unsafe { libc::syscall(libc::SYS_lseek, fd, data, libc::SEEK_HOLE) };
        let end = if hole < 0 { len as i64 } else { hole };
        f.seek(SeekFrom::Start(data as u64))?;
        out.seek(SeekFrom::Start(data as u64))?;
        let mut left = (end - data) as usize;
        while left > 0 {
            let n = f.read(&mut buf[..left.min(1 << 16)])?;
            if n == 0 {
                break;
            }
            // skip all-zero chunks (preallocated journal tail that was written as zeros)
            if buf[..n].iter().any(|b| *b != 0) {
                out.write_all(&buf[..n])?;
            } else {
                out.seek(SeekFrom::Current(n as i64))?;
            }
            left -= n;
        }
        pos = end;
        if pos >= len as i64 {
            break;
        }
    }
    Ok(())
}

enum Decision {
    Pass,
    Fail(libc::c_int),
    /// perform a short write of this many bytes, report it as the result
    Short(usize),
}

/// Called before a mutating call on `path`. Returns the call number and what to do.
fn before(op: &'static str, path: &Path, len: i64, fd: Option<libc::c_int>, buf: Option<(*const u8, usize)>) -> (u64, u64, Decision) {
    let mut g = CTL.lock().unwrap();
    let Some(c) = g.as_mut() else {
        return (0, 0, Decision::Pass);
    };
    let Ok(rel) = path.strip_prefix(&c.root) else {
        return (0, 0, Decision::Pass);
    };
    let rel_s = rel.to_string_lossy().to_string();
    if rel_s == "lock" {
        return (0, 0, Decision::Pass);
    }
    let n = COUNTER.fetch_add(1, Ordering::SeqCst) + 1;
    let is_journal = rel_s.ends_with(".jnl");
    let jn = if is_journal && matches!(op, "write" | "fsync" | "fdatasync") {
        JCOUNTER.fetch_add(1, Ordering::SeqCst) + 1
    } else {
        0
    };
    // unsynced byte range of a journal write (recorded when the call succeeds, see `after`)
    let mut wrange: Option<(u64, u64)> = None;
    if is_journal && op == "write" {
        if let Some(fd) = fd {
            let off = unsafe { libc::syscall(libc::SYS_lseek, fd, 0, libc::SEEK_CUR) };
            let off = if off < 0 { 0 } else { off as u64 };
            let flags = unsafe { libc::syscall(libc::SYS_fcntl, fd, libc::F_GETFL) };
            let off = if flags >= 0 && (flags as i32 & libc::O_APPEND) != 0 {
                std::fs::metadata(c.root.join(rel)).map(|m| m.len()).unwrap_or(off)
            } else {
                off
            };
            wrange = Some((off, len.max(0) as u64));
        }
    }
    PENDING_RANGE.with(|p| p.set(wrange));
    // crash image before the call
    if c.image_all {
        if let Some(dir) = c.image_dir.clone() {
            let label = format!("{n}");
            let _ = copy_dir(&c.root, &dir.join(&label));
            c.images.push((n, label));
            c.synced_history.push((n, c.synced.clone()));
            if c.split_journal_writes && is_journal && op == "write" {
                if let (Some(fd), Some((ptr, l))) = (fd, buf) {
                    // images of the torn write: first byte, half, all but one byte
                    let mut cuts = vec![1usize, l / 2, l.saturating_sub(1)];
                    cuts.retain(|m| *m > 0 && *m < l);
                    cuts.dedup();
                    for m in cuts {
                        // write m bytes, image, rewind by truncating back is not possible for
                        // append files: instead build the image from the pre-call image plus the
                        // first m bytes appended to the journal copy
                        let label = format!("{n}s{m}");
                        let idir = dir.join(&label);
                        let _ = copy_dir(&c.root, &idir);
                        let jpath = idir.join(rel);
                        let off = unsafe { libc::syscall(libc::SYS_lseek, fd, 0, libc::SEEK_CUR) };
                        let off = if off < 0 { 0 } else { off as u64 };
                        // O_APPEND files report the current end only after the first write:
                        // use the file length for append-mode descriptors
                        let flags = unsafe { libc::syscall(libc::SYS_fcntl, fd, libc::F_GETFL) };
                        let off = if flags >= 0 && (flags as i32 & libc::O_APPEND) != 0 {
                            std::fs::metadata(c.root.join(rel)).map(|m| m.len()).unwrap_or(off)
                        } else {
                            off
                        };
                        if let Ok(mut jf) = std::fs::OpenOptions::new().write(true).open(&jpath) {
                            use std::io::{Seek, SeekFrom, Write};
                            let data = unsafe { std::slice::from_raw_parts(ptr, m) };
                            if jf.metadata().map(|x| x.len()).unwrap_or(0) < off + m as u64 {
                                let _ = jf.set_len(off + m as u64);
                            }
                            let _ = jf.seek(SeekFrom::Start(off));
                            let _ = jf.write_all(data);
                        }
                        c.images.push((n, label));
                        c.synced_history.push((n, c.synced.clone()));
                    }
                }
            }
        }
    }
    // fault injection on journal calls
    let mut decision = Decision::Pass;
    if jn > 0 {
        if let Some(f) = c.fault.as_mut() {
            if f.pending_eio && op == "write" {
                f.pending_eio = false;
                decision = Decision::Fail(libc::EIO);
            } else if !f.fired && f.jn == jn {
                f.fired = true;
                decision = match f.kind {
                    FaultKind::Eio => Decision::Fail(libc::EIO),
                    FaultKind::Enospc => Decision::Fail(libc::ENOSPC),
                    FaultKind::ShortThenEio => {
                        if op == "write" && len > 1 {
                            f.pending_eio = true;
                            Decision::Short((len / 2) as usize)
                        } else {
                            Decision::Fail(libc::EIO)
                        }
                    }
                };
            }
        }
    }
    let marker = c.marker.clone();
    c.log.push(Ev {
        n,
        op,
        path: rel_s,
        len,
        ret: 0,
        jn,
        marker,
    });
    (n, jn, decision)
}

fn after(n: u64, ret: i64, op: &'static str, path: &Path) {
    if n == 0 {
        return;
    }
    let mut g = CTL.lock().unwrap();
    let Some(c) = g.as_mut() else { return };
    if let Some(e) = c.log.iter_mut().rev().find(|e| e.n == n) {
        e.ret = ret;
    }
    if let Ok(rel) = path.strip_prefix(&c.root) {
        let rel_s = rel.to_string_lossy().to_string();
        if rel_s.ends_with(".jnl") {
            if ret >= 0 && (op == "fsync" || op == "fdatasync") {
                c.synced.insert(rel_s, Vec::new());
            } else if ret > 0 && op == "write" {
                if let Some((off, _)) = PENDING_RANGE.with(|p| p.take()) {
                    c.synced.entry(rel_s).or_default().push((off, ret as u64));
                }
            }
        }
    }
}

fn set_errno(e: libc::c_int) {
    unsafe {
        *libc::__errno_location() = e;
    }
}

macro_rules! guard {
    ($pass:expr) => {
        if !ACTIVE.load(Ordering::Relaxed) || REENTRANT.with(|r| r.get()) {
            return $pass;
        }
    };
}

fn ret_of(r: i64) -> i64 {
    // raw syscalls through libc::syscall already set errno and return -1
    r
}

#[no_mangle]
pub unsafe extern "C" fn write(fd: libc::c_int, buf: *const libc::c_void, count: libc::size_t) -> libc::ssize_t {
    guard!(libc::syscall(libc::SYS_write, fd, buf, count) as libc::ssize_t);
    let Some(path) = with_reentrant(|| fd_path(fd)) else {
        return libc::syscall(libc::SYS_write, fd, buf, count) as libc::ssize_t;
    };
    let (n, _jn, d) = with_reentrant(|| before("write", &path, count as i64, Some(fd), Some((buf as *const u8, count))));
    let r = match d {
        Decision::Pass => ret_of(libc::syscall(libc::SYS_write, fd, buf, count)),
        Decision::Fail(e) => {
            set_errno(e);
            -1
        }
        Decision::Short(m) => ret_of(libc::syscall(libc::SYS_write, fd, buf, m)),
    };
    with_reentrant(|| after(n, r, "write", &path));
    r as libc::ssize_t
}

#[no_mangle]
pub unsafe extern "C" fn pwrite64(fd: libc::c_int, buf: *const libc::c_void, count: libc::size_t, off: libc::off64_t) -> libc::ssize_t {
    guard!(libc::syscall(libc::SYS_pwrite64, fd, buf, count, off) as libc::ssize_t);
    let Some(path) = with_reentrant(|| fd_path(fd)) else {
        return libc::syscall(libc::SYS_pwrite64, fd, buf, count, off) as libc::ssize_t;
    };
    let (n, _, d) = with_reentrant(|| before("pwrite", &path, count as i64, None, None));
    let r = match d {
        Decision::Fail(e) => {
            set_errno(e);
            -1
        }
        _ => ret_of(libc::syscall(libc::SYS_pwrite64, fd, buf, count, off)),
    };
    with_reentrant(|| after(n, r, "pwrite", &path));
    r as libc::ssize_t
}

#[no_mangle]
pub unsafe extern "C" fn writev(fd: libc::c_int, iov: *const libc::iovec, cnt: libc::c_int) -> libc::ssize_t {
    guard!(libc::syscall(libc::SYS_writev, fd, iov, cnt) as libc::ssize_t);
    let Some(path) = with_reentrant(|| fd_path(fd)) else {
        return libc::syscall(libc::SYS_writev, fd, iov, cnt) as libc::ssize_t;
    };
    let mut total = 0i64;
    for i in 0..cnt as isize {
        total += (*iov.offset(i)).iov_len as i64;
    }
    let (n, _, d) = with_reentrant(|| before("writev", &path, total, None, None));
    let r = match d {
        Decision::Fail(e) => {
            set_errno(e);
            -1
        }
        _ => ret_of(libc::syscall(libc::SYS_writev, fd, iov, cnt)),
    };
    with_reentrant(|| after(n, r, "writev", &path));
    r as libc::ssize_t
}

#[no_mangle]
pub unsafe extern "C" fn fsync(fd: libc::c_int) -> libc::c_int {
    guard!(libc::syscall(libc::SYS_fsync, fd) as libc::c_int);
    let Some(path) = with_reentrant(|| fd_path(fd)) else {
        return libc::syscall(libc::SYS_fsync, fd) as libc::c_int;
    };
    let (n, _, d) = with_reentrant(|| before("fsync", &path, 0, None, None));
    let r = match d {
        Decision::Pass => ret_of(libc::syscall(libc::SYS_fsync, fd)),
        Decision::Fail(e) => {
            set_errno(e);
            -1
        }
        Decision::Short(_) => ret_of(libc::syscall(libc::SYS_fsync, fd)),
    };
    with_reentrant(|| after(n, r, "fsync", &path));
    r as libc::c_int
}

#[no_mangle]
pub unsafe extern "C" fn fdatasync(fd: libc::c_int) -> libc::c_int {
    guard!(libc::syscall(libc::SYS_fdatasync, fd) as libc::c_int);
    let Some(path) = with_reentrant(|| fd_path(fd)) else {
        return libc::syscall(libc::SYS_fdatasync, fd) as libc::c_int;
    };
    let (n, _, d) = with_reentrant(|| before("fdatasync", &path, 0, None, None));
    let r = match d {
        Decision::Pass => ret_of(libc::syscall(libc::SYS_fdatasync, fd)),
        Decision::Fail(e) => {
            set_errno(e);
            -1
        }
        Decision::Short(_) => ret_of(libc::syscall(libc::SYS_fdatasync, fd)),
    };
    with_reentrant(|| after(n, r, "fdatasync", &path));
    r as libc::c_int
}

#[no_mangle]
pub unsafe extern "C" fn ftruncate64(fd: libc::c_int, len: libc::off64_t) -> libc::c_int {
    guard!(libc::syscall(libc::SYS_ftruncate, fd, len) as libc::c_int);
    let Some(path) = with_reentrant(|| fd_path(fd)) else {
        return libc::syscall(libc::SYS_ftruncate, fd, len) as libc::c_int;
    };
    let (n, _, _) = with_reentrant(|| before("ftruncate", &path, len, None, None));
    let r = ret_of(libc::syscall(libc::SYS_ftruncate, fd, len));
    with_reentrant(|| after(n, r, "ftruncate", &path));
    r as libc::c_int
}

#[no_mangle]
pub unsafe extern "C" fn ftruncate(fd: libc::c_int, len: libc::off_t) -> libc::c_int {
    ftruncate64(fd, len)
}

#[no_mangle]
pub unsafe extern "C" fn unlink(p: *const libc::c_char) -> libc::c_int {
    guard!(libc::syscall(libc::SYS_unlink, p) as libc::c_int);
    let Some(path) = cpath(p) else {
        return libc::syscall(libc::SYS_unlink, p) as libc::c_int;
    };
    let (n, _, _) = with_reentrant(|| before("unlink", &path, 0, None, None));
    let r = ret_of(libc::syscall(libc::SYS_unlink, p));
    with_reentrant(|| after(n, r, "unlink", &path));
    r as libc::c_int
}

#[no_mangle]
pub unsafe extern "C" fn unlinkat(dirfd: libc::c_int, p: *const libc::c_char, flags: libc::c_int) -> libc::c_int {
    guard!(libc::syscall(libc::SYS_unlinkat, dirfd, p, flags) as libc::c_int);
    let base = if dirfd == libc::AT_FDCWD { None } else { with_reentrant(|| fd_path(dirfd)) };
    let path = match (base, cpath(p)) {
        (Some(b), Some(rel)) => b.join(rel),
        (None, Some(rel)) => rel,
        _ => return libc::syscall(libc::SYS_unlinkat, dirfd, p, flags) as libc::c_int,
    };
    let (n, _, _) = with_reentrant(|| before("unlinkat", &path, 0, None, None));
    let r = ret_of(libc::syscall(libc::SYS_unlinkat, dirfd, p, flags));
    with_reentrant(|| after(n, r, "unlinkat", &path));
    r as libc::c_int
}

#[no_mangle]
pub unsafe extern "C" fn rename(a: *const libc::c_char, b: *const libc::c_char) -> libc::c_int {
    guard!(libc::syscall(libc::SYS_rename, a, b) as libc::c_int);
    let Some(path) = cpath(b) else {
        return libc::syscall(libc::SYS_rename, a, b) as libc::c_int;
    };
    let (n, _, _) = with_reentrant(|| before("rename", &path, 0, None, None));
    let r = ret_of(libc::syscall(libc::SYS_rename, a, b));
    with_reentrant(|| after(n, r, "rename", &path));
    r as libc::c_int
}

#[no_mangle]
pub unsafe extern "C" fn mkdir(p: *const libc::c_char, mode: libc::mode_t) -> libc::c_int {
    guard!(libc::syscall(libc::SYS_mkdir, p, mode) as libc::c_int);
    let Some(path) = cpath(p) else {
        return libc::syscall(libc::SYS_mkdir, p, mode) as libc::c_int;
    };
    let (n, _, _) = with_reentrant(|| before("mkdir", &path, 0, None, None));
    let r = ret_of(libc::syscall(libc::SYS_mkdir, p, mode));
    with_reentrant(|| after(n, r, "mkdir", &path));
    r as libc::c_int
}

#[no_mangle]
pub unsafe extern "C" fn rmdir(p: *const libc::c_char) -> libc::c_int {
    guard!(libc::syscall(libc::SYS_rmdir, p) as libc::c_int);
    let Some(path) = cpath(p) else {
        return libc::syscall(libc::SYS_rmdir, p) as libc::c_int;
    };
    let (n, _, _) = with_reentrant(|| before("rmdir", &path, 0, None, None));
    let r = ret_of(libc::syscall(libc::SYS_rmdir, p));
    with_reentrant(|| after(n, r, "rmdir", &path));
    r as libc::c_int
}
