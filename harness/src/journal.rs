//! Independent parser of fjall's journal file format (entry.rs), used to locate cells
//! (for cut / alteration campaigns) and to read the seqnos present in journal files.

use std::path::Path;

#[derive(Clone, Debug, PartialEq, Eq)]
pub enum CellKind {
    StartTag,
    StartCount,
    StartSeqno,
    ItemTag,
    ItemVType,
    ItemComp,
    ItemKsId,
    ItemKLen,
    ItemVLen,
    ItemDLen,
    ItemKey,
    ItemData,
    ClearTag,
    ClearKsId,
    EndTag,
    EndCksum,
    EndMagic,
}

#[derive(Clone, Debug)]
pub struct Cell {
    pub kind: CellKind,
    pub off: usize,
    pub len: usize,
    /// index of the batch this cell belongs to
    pub batch: usize,
    /// index of the item within the batch (for item cells)
    pub item: usize,
}

#[derive(Clone, Debug)]
pub struct BatchInfo {
    pub start: usize,
    pub end: usize, // one past the last byte of the End marker
    pub seqno: u64,
    pub count: u32,
}

#[derive(Clone, Debug, Default)]
pub struct Parsed {
    pub cells: Vec<Cell>,
    pub batches: Vec<BatchInfo>,
    /// offset where parsing stopped (end of the last complete batch)
    pub valid_end: usize,
}

fn rd_u16(b: &[u8], o: usize) -> Option<u16> {
    b.get(o..o + 2).map(|s| u16::from_le_bytes([s[0], s[1]]))
}
fn rd_u32(b: &[u8], o: usize) -> Option<u32> {
    b.get(o..o + 4).map(|s| u32::from_le_bytes([s[0], s[1], s[2], s[3]]))
}
fn rd_u64(b: &[u8], o: usize) -> Option<u64> {
    b.get(o..o + 8).map(|s| {
        let mut a = [0u8; 8];
        a.copy_from_slice(s);
        u64::from_le_bytes(a)
    })
}

/// Parses complete batches from the start of the file image; stops at the first byte that is
/// not the start of a complete, well-formed batch (does not verify checksums).
pub fn parse(bytes: &[u8]) -> Parsed {
    let mut p = Parsed::default();
    let mut o = 0usize;
    loop {
        let bstart = o;
        let bi = p.batches.len();
        let mut cells = Vec::new();
        if bytes.get(o) != Some(&1) {
            break;
        }
        let Some(count) = rd_u32(bytes, o + 1) else { break };
        let Some(seqno) = rd_u64(bytes, o + 5) else { break };
        cells.push(Cell { kind: CellKind::StartTag, off: o, len: 1, batch: bi, item: 0 });
        cells.push(Cell { kind: CellKind::StartCount, off: o + 1, len: 4, batch: bi, item: 0 });
        cells.push(Cell { kind: CellKind::StartSeqno, off: o + 5, len: 8, batch: bi, item: 0 });
        o += 13;
        let mut ok = true;
        for it in 0..count as usize {
            match bytes.get(o) {
                Some(2) => {
                    let (Some(klen), Some(vlen), Some(dlen)) =
                        (rd_u16(bytes, o + 11), rd_u32(bytes, o + 13), rd_u32(bytes, o + 17))
                    else {
                        ok = false;
                        break;
                    };
                    let _ = vlen;
                    let total = 21 + klen as usize + dlen as usize;
                    if bytes.len() < o + total {
                        ok = false;
                        break;
                    }
                    cells.push(Cell { kind: CellKind::ItemTag, off: o, len: 1, batch: bi, item: it });
                    cells.push(Cell { kind: CellKind::ItemVType, off: o + 1, len: 1, batch: bi, item: it });
                    cells.push(Cell { kind: CellKind::ItemComp, off: o + 2, len: 1, batch: bi, item: it });
                    cells.push(Cell { kind: CellKind::ItemKsId, off: o + 3, len: 8, batch: bi, item: it });
                    cells.push(Cell { kind: CellKind::ItemKLen, off: o + 11, len: 2, batch: bi, item: it });
                    cells.push(Cell { kind: CellKind::ItemVLen, off: o + 13, len: 4, batch: bi, item: it });
                    cells.push(Cell { kind: CellKind::ItemDLen, off: o + 17, len: 4, batch: bi, item: it });
                    cells.push(Cell { kind: CellKind::ItemKey, off: o + 21, len: klen as usize, batch: bi, item: it });
                    cells.push(Cell { kind: CellKind::ItemData, off: o + 21 + klen as usize, len: dlen as usize, batch: bi, item: it });
                    o += total;
                }
                Some(4) => {
                    if bytes.len() < o + 9 {
                        ok = false;
                        break;
                    }
                    cells.push(Cell { kind: CellKind::ClearTag, off: o, len: 1, batch: bi, item: it });
                    cells.push(Cell { kind: CellKind::ClearKsId, off: o + 1, len: 8, batch: bi, item: it });
                    o += 9;
                }
                _ => {
                    ok = false;
                    break;
                }
            }
        }
        if !ok {
            break;
        }
        if bytes.get(o) != Some(&3) || bytes.len() < o + 13 || &bytes[o + 9..o + 13] != b"FJL\x03" {
            break;
        }
        cells.push(Cell { kind: CellKind::EndTag, off: o, len: 1, batch: bi, item: 0 });
        cells.push(Cell { kind: CellKind::EndCksum, off: o + 1, len: 8, batch: bi, item: 0 });
        cells.push(Cell { kind: CellKind::EndMagic, off: o + 9, len: 4, batch: bi, item: 0 });
        o += 13;
        p.cells.extend(cells);
        p.batches.push(BatchInfo { start: bstart, end: o, seqno, count });
        p.valid_end = o;
    }
    p
}

pub fn journal_files(dir: &Path) -> Vec<(u64, std::path::PathBuf)> {
    let mut v = Vec::new();
    if let Ok(rd) = std::fs::read_dir(dir) {
        for e in rd.flatten() {
            let n = e.file_name().to_string_lossy().to_string();
            if let Some(b) = n.strip_suffix(".jnl") {
                if let Ok(id) = b.parse::<u64>() {
                    v.push((id, e.path()));
                }
            }
        }
    }
    v.sort();
    v
}

/// Highest batch seqno present in any journal file of the database directory.
pub fn max_seqno_in_dir(dir: &Path) -> Option<u64> {
    let mut m = None;
    for (_, p) in journal_files(dir) {
        // journals are preallocated to 64 MiB; only the written prefix matters
        let Ok(bytes) = read_prefix(&p) else { continue };
        for b in parse(&bytes).batches {
            m = Some(m.map_or(b.seqno, |x: u64| x.max(b.seqno)));
        }
    }
    m
}

/// Reads the file up to (and a bit beyond) its last non-zero byte.
pub fn read_prefix(p: &Path) -> std::io::Result<Vec<u8>> {
    use std::io::Read;
    let mut f = std::fs::File::open(p)?;
    let mut out = Vec::new();
    let mut buf = vec![0u8; 1 << 16];
    let mut zero_run = 0usize;
    loop {
        let n = f.read(&mut buf)?;
        if n == 0 {
            break;
        }
        out.extend_from_slice(&buf[..n]);
        if buf[..n].iter().all(|b| *b == 0) {
            zero_run += n;
            if zero_run >= (1 << 17) {
                break;
            }
        } else {
            zero_run = 0;
        }
    }
    Ok(out)
}
