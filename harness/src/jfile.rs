//! Byte-level campaigns on real journal files (C03, C15):
//!  - cut: the journal ends at every byte offset of the final batch (plain EOF and zero padded);
//!    recovery must yield exactly the complete earlier batches, truncate the file to their end,
//!    and a later append must be recoverable.
//!  - alter: every byte of the journal is altered in several ways; opening must fail or yield
//!    the observable state of a prefix of the commit history.  Outcomes are tabulated per field
//!    (cell kind) so that they can be compared with the outcome table of JournalFormat.tla.

use crate::journal::{self, CellKind};
use crate::store::{ks_options, open_db, Variant};
use crate::util::{fresh_dir, Concretizer, Outcome};
use fjall::KeyspaceCreateOptions;
use serde_json::{json, Value};
use std::collections::{BTreeMap, BTreeSet};
use std::path::{Path, PathBuf};

#[derive(Clone, Debug)]
enum Op {
    Put(usize, u64, u64), // keyspace index (0 = a, 1 = b), key, model value
    PutEmpty(usize, u64),
    PutBig(usize, u64, u64, bool), // big value (above the compression threshold), compressible?
    Del(usize, u64),
    Clear(usize),
}

type State = BTreeMap<(usize, u64), Vec<u8>>;

fn value_bytes(conc: &Concretizer, op: &Op) -> Option<Vec<u8>> {
    match op {
        Op::Put(_, _, v) => Some(conc.val(*v)),
        Op::PutEmpty(..) => Some(vec![]),
        Op::PutBig(_, _, v, compressible) => {
            let mut b = format!("big{v:03}").into_bytes();
            let mut x = *v * 7919 + 13;
            while b.len() < 5000 {
                if *compressible {
                    b.push(b'z');
                } else {
                    x = x.wrapping_mul(6364136223846793005).wrapping_add(1442695040888963407);
                    b.push((x >> 33) as u8);
                }
            }
            Some(b)
        }
        _ => None,
    }
}

fn apply(conc: &Concretizer, st: &mut State, batch: &[Op]) {
    for op in batch {
        match op {
            Op::Put(ks, k, _) | Op::PutBig(ks, k, _, _) | Op::PutEmpty(ks, k) => {
                st.insert((*ks, *k), value_bytes(conc, op).unwrap());
            }
            Op::Del(ks, k) => {
                st.remove(&(*ks, *k));
            }
            Op::Clear(ks) => st.retain(|(s, _), _| s != ks),
        }
    }
}

fn layouts() -> Vec<(&'static str, Vec<Vec<Op>>)> {
    use Op::*;
    vec![
        ("single-small", vec![vec![Put(0, 1, 1)], vec![Put(0, 2, 2)], vec![Put(0, 1, 3)]]),
        ("empty-value", vec![vec![Put(0, 1, 1)], vec![PutEmpty(0, 2)], vec![PutEmpty(1, 1)]]),
        ("compressed", vec![vec![Put(0, 1, 1)], vec![PutBig(0, 2, 2, true)], vec![PutBig(1, 1, 3, true)]]),
        ("big-incompressible", vec![vec![Put(0, 1, 1)], vec![PutBig(0, 1, 2, false)]]),
        ("tombstone", vec![vec![Put(0, 1, 1)], vec![Put(0, 2, 2)], vec![Del(0, 1)]]),
        ("clear", vec![vec![Put(0, 1, 1)], vec![Put(1, 1, 2)], vec![Clear(0)], vec![Put(0, 2, 4)]]),
        ("batch-2ks", vec![vec![Put(0, 1, 1)], vec![Put(0, 2, 2), Put(1, 1, 2), Del(0, 1)], vec![Put(1, 2, 3), PutEmpty(0, 1)]]),
        ("batch-overwrite", vec![vec![Put(0, 1, 1), Put(1, 1, 1)], vec![Put(0, 1, 2), Put(1, 1, 2)], vec![Put(0, 1, 3), Put(1, 2, 3)]]),
    ]
}

/// Writes the layout through the public API; returns the database directory.
fn build(root: &Path, name: &str, batches: &[Vec<Op>], variant: &Variant, conc: &Concretizer) -> Result<PathBuf, String> {
    let dir = fresh_dir(root, name);
    let e = |x: fjall::Error| format!("{x:?}");
    {
        let db = open_db(&dir, variant, conc).map_err(e)?;
        let a = db.keyspace("a", || ks_options(variant)).map_err(e)?;
        let b = db.keyspace("b", || ks_options(variant)).map_err(e)?;
        let ks = [a, b];
        for batch in batches {
            if batch.len() == 1 {
                match &batch[0] {
                    Op::Del(s, k) => ks[*s].remove(conc.key(*k)).map_err(e)?,
                    Op::Clear(s) => ks[*s].clear().map_err(e)?,
                    op @ (Op::Put(s, k, _) | Op::PutBig(s, k, _, _) | Op::PutEmpty(s, k)) => {
                        ks[*s].insert(conc.key(*k), value_bytes(conc, op).unwrap()).map_err(e)?
                    }
                }
            } else {
                let mut wb = db.batch();
                for op in batch {
                    match op {
                        Op::Del(s, k) => wb.remove(&ks[*s], conc.key(*k)),
                        Op::Clear(_) => {}
                        op @ (Op::Put(s, k, _) | Op::PutBig(s, k, _, _) | Op::PutEmpty(s, k)) => {
                            wb.insert(&ks[*s], conc.key(*k), value_bytes(conc, op).unwrap())
                        }
                    }
                }
                wb.commit().map_err(e)?;
            }
        }
    }
    Ok(dir)
}

fn read_state(dir: &Path, variant: &Variant, conc: &Concretizer) -> Result<State, String> {
    let r = std::panic::catch_unwind(std::panic::AssertUnwindSafe(|| -> Result<State, String> {
        let db = open_db(dir, variant, conc).map_err(|e| format!("open: {e:?}"))?;
        let mut st = State::new();
        for (i, n) in ["a", "b"].iter().enumerate() {
            if !db.keyspace_exists(n) {
                return Err(format!("keyspace {n} missing"));
            }
            let k = db.keyspace(n, KeyspaceCreateOptions::default).map_err(|e| format!("{e:?}"))?;
            for g in k.iter() {
                let (kb, v) = g.into_inner().map_err(|e| format!("iter: {e:?}"))?;
                let key = (1..=4u64).find(|x| conc.key(*x)[..] == kb[..]);
                match key {
                    Some(x) => {
                        st.insert((i, x), v.to_vec());
                    }
                    None => {
                        st.insert((i, 1000 + st.len() as u64), kb.to_vec());
                    }
                }
            }
            // point reads must agree
            for x in 1..=2u64 {
                let g = k.get(conc.key(x)).map_err(|e| format!("get: {e:?}"))?;
                if g.as_ref().map(|b| b.to_vec()) != st.get(&(i, x)).cloned() {
                    return Err(format!("get/iter disagree on {n}.{x}"));
                }
            }
        }
        Ok(st)
    }));
    match r {
        Ok(x) => x,
        Err(_) => Err("panic during open".into()),
    }
}

fn kind_label(k: &CellKind, compressed: bool) -> &'static str {
    match k {
        CellKind::StartTag => "stag",
        CellKind::StartCount => "count",
        CellKind::StartSeqno => "seqno",
        CellKind::ItemTag => "itag",
        CellKind::ItemVType => "vtype",
        CellKind::ItemComp => "comp",
        CellKind::ItemKsId => "ksid",
        CellKind::ItemKLen => "klen",
        CellKind::ItemVLen => "vlen",
        CellKind::ItemDLen => "dlen",
        CellKind::ItemKey => "key",
        CellKind::ItemData => {
            if compressed {
                "zdata"
            } else {
                "data"
            }
        }
        CellKind::ClearTag => "ctag",
        CellKind::ClearKsId => "cksid",
        CellKind::EndTag => "etag",
        CellKind::EndCksum => "cksum",
        CellKind::EndMagic => "magic",
    }
}

pub struct JArgs {
    pub out_dir: PathBuf,
    pub property: String,
    pub seed: u64,
    pub stride: usize,
    pub allowed_kf: Vec<String>,
}

pub fn run_cut(args: &JArgs) -> Outcome {
    let mut out = Outcome::default();
    let root = crate::util::scratch_root();
    let mut cuts = 0u64;
    for (li, (lname, batches)) in layouts().into_iter().enumerate() {
        for comp in [true, false] {
            let mut variant = Variant::from_index(args.seed + li as u64, &[]);
            variant.journal_compression = comp;
            variant.kv_sep = false;
            let conc = Concretizer::new(variant.key_scheme, 0, args.seed);
            let dir = match build(&root, &format!("cut{li}"), &batches, &variant, &conc) {
                Ok(d) => d,
                Err(e) => {
                    out.notes.push(format!("{lname}: build failed {e}"));
                    continue;
                }
            };
            out.behaviours += 1;
            let jpath = dir.join("0.jnl");
            let bytes = journal::read_prefix(&jpath).unwrap_or_default();
            let parsed = journal::parse(&bytes);
            // creation of the two keyspaces does not go through the journal
            if parsed.batches.len() != batches.len() {
                out.notes.push(format!("{lname}: parser sees {} batches, wrote {}", parsed.batches.len(), batches.len()));
                continue;
            }
            let full_len = std::fs::metadata(&jpath).map(|m| m.len()).unwrap_or(0);
            // expected states
            let mut prefix_states: Vec<State> = vec![State::new()];
            for b in &batches {
                let mut s = prefix_states.last().unwrap().clone();
                apply(&conc, &mut s, b);
                prefix_states.push(s);
            }
            let last = parsed.batches.last().unwrap().clone();
            let n = batches.len();
            let mut first_bad: Option<Value> = None;
            let mut off = last.start;
            while off < last.end {
                for padded in [false, true] {
                    cuts += 1;
                    out.steps += 1;
                    let img = fresh_dir(&root, "cutimg");
                    let _ = crate::adv::copy_dir(&dir, &img);
                    let jp = img.join("0.jnl");
                    {
                        let f = std::fs::OpenOptions::new().write(true).open(&jp).unwrap();
                        f.set_len(off as u64).unwrap();
                        if padded {
                            f.set_len(full_len).unwrap();
                        }
                    }
                    let mut why: Option<String> = None;
                    match read_state(&img, &variant, &conc) {
                        Err(e) => why = Some(format!("reopen failed: {e}")),
                        Ok(st) => {
                            if st != prefix_states[n - 1] {
                                why = Some(format!("recovered state is not the {} complete batches", n - 1));
                            } else {
                                // the torn batch must be gone from the file: what parses as journal content
                                // ends with the last complete batch (the physical length is the
                                // implementation's business - the property speaks about later appends,
                                // which are checked below)
                                let jl = journal::read_prefix(&jp).map(|b| journal::parse(&b).valid_end).unwrap_or(0);
                                if jl != last.start {
                                    why = Some(format!("journal content after the repair ends at byte {jl}, the last complete batch ends at {}", last.start));
                                }
                            }
                        }
                    }
                    if why.is_none() {
                        // a later append must be recoverable
                        let r = std::panic::catch_unwind(std::panic::AssertUnwindSafe(|| -> Result<(), String> {
                            let db = open_db(&img, &variant, &conc).map_err(|e| format!("{e:?}"))?;
                            let a = db.keyspace("a", KeyspaceCreateOptions::default).map_err(|e| format!("{e:?}"))?;
                            a.insert(conc.key(2), conc.val(77)).map_err(|e| format!("{e:?}"))?;
                            Ok(())
                        }));
                        if !matches!(r, Ok(Ok(()))) {
                            why = Some(format!("append after repair failed: {r:?}"));
                        } else {
                            let mut exp = prefix_states[n - 1].clone();
                            exp.insert((0, 2), conc.val(77));
                            match read_state(&img, &variant, &conc) {
                                Ok(st) if st == exp => {}
                                Ok(_) => why = Some("append after repair not recovered".into()),
                                Err(e) => why = Some(format!("reopen after append failed: {e}")),
                            }
                        }
                    }
                    let _ = std::fs::remove_dir_all(&img);
                    if let Some(w) = why {
                        if first_bad.is_none() {
                            let cell = parsed.cells.iter().find(|c| c.off <= off && off < c.off + c.len.max(1)).map(|c| format!("{:?}", c.kind));
                            first_bad = Some(json!({"layout": lname, "journal_compression": comp, "cut_at_byte": off, "zero_padded": padded,
                                "inside_cell": cell, "final_batch": [last.start, last.end], "why": w}));
                        }
                    }
                }
                off += args.stride.max(1);
            }
            if let Some(bad) = first_bad {
                let rp = args.out_dir.join(format!("jcut_{}_{}_{}.json", args.property, lname, comp));
                std::fs::write(&rp, serde_json::to_string_pretty(&json!({"property": args.property, "kind": "journal-cut", "first_bad": bad})).unwrap()).ok();
                out.violations.push(json!({"replay": rp.to_string_lossy(), "step": bad["cut_at_byte"], "first": format!("{} cut at byte {}: {}", lname, bad["cut_at_byte"], bad["why"])}));
            }
            if out.samples.len() < 2 {
                out.samples.push(json!({"layout": lname, "journal_compression": comp, "journal_bytes": parsed.valid_end,
                    "final_batch_bytes": [last.start, last.end], "cells": parsed.cells.len()}));
            }
            let _ = std::fs::remove_dir_all(&dir);
        }
    }
    out.notes.push(format!("cuts={cuts}"));
    let _ = std::fs::remove_dir_all(&root);
    out
}

pub fn run_alter(args: &JArgs) -> Outcome {
    let mut out = Outcome::default();
    let root = crate::util::scratch_root();
    let mut table: BTreeMap<(String, bool), BTreeSet<String>> = BTreeMap::new();
    let mut alterations = 0u64;
    let mut kf_d10: Option<String> = None;
    let mut panics = 0u64;
    for (li, (lname, batches)) in layouts().into_iter().enumerate() {
        for comp in [true, false] {
            let mut variant = Variant::from_index(args.seed + li as u64, &[]);
            variant.journal_compression = comp;
            variant.kv_sep = false;
            let conc = Concretizer::new(variant.key_scheme, 0, args.seed);
            let dir = match build(&root, &format!("alt{li}"), &batches, &variant, &conc) {
                Ok(d) => d,
                Err(_) => continue,
            };
            out.behaviours += 1;
            let jpath = dir.join("0.jnl");
            let bytes = journal::read_prefix(&jpath).unwrap_or_default();
            let parsed = journal::parse(&bytes);
            if parsed.batches.len() != batches.len() {
                continue;
            }
            let mut prefix_states: Vec<State> = vec![State::new()];
            for b in &batches {
                let mut s = prefix_states.last().unwrap().clone();
                apply(&conc, &mut s, b);
                prefix_states.push(s);
            }
            // every value ever written per key (for the D10 classification)
            let mut ever: BTreeMap<(usize, u64), Vec<Vec<u8>>> = BTreeMap::new();
            for b in &batches {
                for op in b {
                    if let Op::Put(s, k, _) | Op::PutBig(s, k, _, _) | Op::PutEmpty(s, k) = op {
                        ever.entry((*s, *k)).or_default().push(value_bytes(&conc, op).unwrap());
                    }
                }
            }
            let nb = batches.len();
            let mut first_bad: Option<Value> = None;
            for cell in &parsed.cells {
                let compressed = matches!(cell.kind, CellKind::ItemData) && {
                    // the comp byte of this item
                    parsed.cells.iter().any(|c| c.batch == cell.batch && c.item == cell.item && c.kind == CellKind::ItemComp && bytes[c.off] == 1)
                };
                let label = kind_label(&cell.kind, compressed);
                let in_last = cell.batch == nb - 1;
                // positions within the cell: all for short cells, sampled for long ones
                let mut positions: Vec<usize> = (0..cell.len).collect();
                if cell.len > 16 {
                    positions = vec![0, 1, cell.len / 2, cell.len - 2, cell.len - 1];
                }
                for (pi, p) in positions.iter().enumerate() {
                    if (pi + cell.off) % args.stride.max(1) != 0 && cell.len > 1 {
                        continue;
                    }
                    let pos = cell.off + p;
                    let orig = bytes[pos];
                    let mut news: Vec<u8> = vec![orig ^ 0x01, orig ^ 0x80, 0x00, 0xff];
                    if matches!(cell.kind, CellKind::StartTag | CellKind::ItemTag | CellKind::EndTag | CellKind::ClearTag | CellKind::ItemVType | CellKind::ItemComp) {
                        news.extend([1u8, 2, 3, 4]);
                    }
                    news.sort_unstable();
                    news.dedup();
                    news.retain(|b| *b != orig);
                    for nbyte in news {
                        alterations += 1;
                        out.steps += 1;
                        let img = fresh_dir(&root, "altimg");
                        let _ = crate::adv::copy_dir(&dir, &img);
                        {
                            use std::io::{Seek, SeekFrom, Write};
                            let mut f = std::fs::OpenOptions::new().write(true).open(img.join("0.jnl")).unwrap();
                            f.seek(SeekFrom::Start(pos as u64)).unwrap();
                            f.write_all(&[nbyte]).unwrap();
                        }
                        let outcome = match read_state(&img, &variant, &conc) {
                            Err(e) => {
                                if e.contains("panic") {
                                    panics += 1;
                                }
                                "error".to_string()
                            }
                            Ok(st) => {
                                if st == prefix_states[nb] {
                                    "all".into()
                                } else if prefix_states.iter().any(|p| *p == st) {
                                    "prefix".into()
                                } else {
                                    // not a prefix: altered data, or the known reordering through Start.seqno
                                    let no_invented = st.iter().all(|(k, v)| ever.get(k).map_or(false, |vs| vs.contains(v)));
                                    if matches!(cell.kind, CellKind::StartSeqno) && no_invented {
                                        "d10".into()
                                    } else {
                                        "other".into()
                                    }
                                }
                            }
                        };
                        let _ = std::fs::remove_dir_all(&img);
                        table.entry((label.to_string(), in_last)).or_default().insert(outcome.clone());
                        if outcome == "d10" {
                            kf_d10.get_or_insert(format!(
                                "D10 {lname}: byte {pos} (Start.seqno of batch {}) {orig:#04x} -> {nbyte:#04x}: a completed batch is replayed at another seqno, state is not a prefix of the commit history",
                                cell.batch
                            ));
                        }
                        if outcome == "other" && first_bad.is_none() {
                            first_bad = Some(json!({"layout": lname, "journal_compression": comp, "byte": pos, "cell": format!("{:?}", cell.kind),
                                "batch": cell.batch, "from": orig, "to": nbyte, "why": "opening succeeds with a state that is no prefix of the commit history"}));
                        }
                    }
                }
            }
            if let Some(bad) = first_bad {
                let rp = args.out_dir.join(format!("jalter_{}_{}_{}.json", args.property, lname, comp));
                std::fs::write(&rp, serde_json::to_string_pretty(&json!({"property": args.property, "kind": "journal-alter", "first_bad": bad})).unwrap()).ok();
                out.violations.push(json!({"replay": rp.to_string_lossy(), "step": bad["byte"], "first": format!("{}: byte {} ({}) {} -> {}: {}", lname, bad["byte"], bad["cell"], bad["from"], bad["to"], bad["why"])}));
            }
            if out.samples.len() < 2 {
                out.samples.push(json!({"layout": lname, "journal_compression": comp, "journal_bytes": parsed.valid_end, "cells": parsed.cells.len()}));
            }
            let _ = std::fs::remove_dir_all(&dir);
        }
    }
    if let Some(m) = kf_d10 {
        if args.allowed_kf.iter().any(|k| k == "D10") {
            out.known.push(json!({"id": "D10", "example": m}));
        } else {
            out.violations.push(json!({"replay": "", "step": 0, "first": format!("(unlisted finding) {m}")}));
        }
    }
    let t: Vec<Value> = table.iter().map(|((l, last), o)| json!({"field": l, "in_last_batch": last, "outcomes": o})).collect();
    out.notes.push(format!("alterations={alterations} panics_during_open={panics}"));
    out.samples.push(json!({"outcome_table": t}));
    let _ = std::fs::remove_dir_all(&root);
    out
}
