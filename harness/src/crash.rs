//! Crash / power-loss campaigns: a specification behaviour is executed once under the I/O
//! adversary, which takes an image of the database directory before every file-mutating system
//! call (and at split points of every journal write).  Every image is then opened by the real
//! recovery code and its projection is compared with the states the specification allows for a
//! crash at that point (process crash: the state before or after the step in flight, one prefix
//! for all keyspaces; power loss: nothing acknowledged before the last sync point is lost).

use crate::adv;
use crate::store::{compare, open_db, Variant, World};
use crate::util::{fresh_dir, hash_str, Concretizer, Outcome};
use fjall::KeyspaceCreateOptions;
use serde_json::{json, Value};
use std::collections::BTreeMap;
use std::path::{Path, PathBuf};

pub struct CrashArgs {
    pub file: PathBuf,
    pub out_dir: PathBuf,
    pub property: String,
    pub seed: u64,
    pub nkeys: u64,
    pub power: bool,
    /// manual journal persist of the keyspaces / of the database (two independent switches)
    pub manual_persist: bool,
    pub manual_db: bool,
    /// batches commit as write transactions of the single-writer database
    pub tx_batches: bool,
    pub split: bool,
    pub allowed_kf: Vec<String>,
    pub max_behaviours: u64,
    pub image_stride: u64,
}

/// content of every keyspace of a recovered image: name -> model values per key (scan and point)
fn project_open(db: &fjall::Database, conc: &Concretizer, nkeys: u64, probe: Option<&[u8]>) -> Result<BTreeMap<String, (Vec<u64>, Vec<u64>)>, String> {
    let mut out = BTreeMap::new();
    for name in db.list_keyspace_names() {
        let k = db
            .keyspace(&name, KeyspaceCreateOptions::default)
            .map_err(|e| format!("keyspace({name}) failed: {e:?}"))?;
        let mut point = vec![];
        for i in 1..=nkeys {
            let v = k.get(conc.key(i)).map_err(|e| format!("get failed: {e:?}"))?;
            point.push(v.map_or(0, |b| conc.unval(&b)));
        }
        let mut scan = vec![0u64; nkeys as usize];
        let keys: Vec<Vec<u8>> = (1..=nkeys).map(|i| conc.key(i)).collect();
        for g in k.iter() {
            let (kb, v) = g.into_inner().map_err(|e| format!("iter failed: {e:?}"))?;
            if probe.is_some_and(|p| p == &kb[..]) {
                continue;
            }
            match keys.iter().position(|x| x[..] == kb[..]) {
                Some(i) => scan[i] = conc.unval(&v),
                None => return Err(format!("recovered a key that was never written: {:?}", kb)),
            }
        }
        out.insert(name.to_string(), (point, scan));
    }
    Ok(out)
}

/// Recovers an image with the real code and projects it.  Then - the image being a scratch copy -
/// a probe key is written to every keyspace, the database is closed and opened once more: the
/// probe must be there and nothing else may have changed (a recovery that leaves the journal in
/// a state where later appends are lost shows up here).
fn project_image(dir: &Path, variant: &Variant, conc: &Concretizer, nkeys: u64) -> Result<BTreeMap<String, (Vec<u64>, Vec<u64>)>, String> {
    let r = std::panic::catch_unwind(std::panic::AssertUnwindSafe(|| -> Result<_, String> {
        let probe: Vec<u8> = b"\xffprobe-after-recovery".to_vec();
        let first = {
            let db = open_db(dir, variant, conc).map_err(|e| format!("open failed: {e:?}"))?;
            let first = project_open(&db, conc, nkeys, None)?;
            for name in db.list_keyspace_names() {
                let k = db.keyspace(&name, KeyspaceCreateOptions::default).map_err(|e| format!("keyspace({name}) failed: {e:?}"))?;
                k.insert(&probe, b"p").map_err(|e| format!("write after recovery failed: {e:?}"))?;
            }
            first
        };
        let db = open_db(dir, variant, conc).map_err(|e| format!("second open (after recovery + one write per keyspace) failed: {e:?}"))?;
        let second = project_open(&db, conc, nkeys, Some(&probe))?;
        if second != first {
            return Err(format!("after recovery, one more write per keyspace and a second reopen the content changed: {first:?} -> {second:?}"));
        }
        for name in db.list_keyspace_names() {
            let k = db.keyspace(&name, KeyspaceCreateOptions::default).map_err(|e| format!("keyspace({name}) failed: {e:?}"))?;
            if k.get(&probe).map_err(|e| format!("get failed: {e:?}"))?.as_deref() != Some(&b"p"[..]) {
                return Err(format!("a write acknowledged after recovery is missing after the next reopen (keyspace {name})"));
            }
        }
        Ok(first)
    }));
    match r {
        Ok(x) => x,
        Err(p) => {
            let msg = p
                .downcast_ref::<String>()
                .cloned()
                .or_else(|| p.downcast_ref::<&str>().map(|s| s.to_string()))
                .unwrap_or_default();
            Err(format!("recovery panicked: {msg}"))
        }
    }
}

fn model_content(st: &Value) -> BTreeMap<String, (Vec<u64>, bool)> {
    let mut m = BTreeMap::new();
    if let Some(o) = st["ks"].as_object() {
        for (n, k) in o {
            let r: Vec<u64> = k["ref"].as_array().map(|a| a.iter().map(|x| x.as_u64().unwrap_or(0)).collect()).unwrap_or_default();
            m.insert(
                n.clone(),
                (r, k["tainted"].as_bool().unwrap_or(false) || k["ctaint"].as_bool().unwrap_or(false)),
            );
        }
    }
    m
}

fn matches_state(rec: &BTreeMap<String, (Vec<u64>, Vec<u64>)>, st: &BTreeMap<String, (Vec<u64>, bool)>) -> Result<(), String> {
    let rn: Vec<&String> = rec.keys().collect();
    let sn: Vec<&String> = st.keys().collect();
    if rn != sn {
        return Err(format!("keyspaces {rn:?} vs {sn:?}"));
    }
    for (n, (point, scan)) in rec {
        let (r, tainted) = &st[n];
        if *tainted {
            continue;
        }
        if point != r || scan != r {
            return Err(format!("{n}: get {point:?} iter {scan:?} vs {r:?}"));
        }
    }
    Ok(())
}

/// content comparison that ignores which keyspaces exist (a keyspace missing from the model
/// state must be empty): used with manual journal persist, where keyspace creation (not
/// journaled, durable at once) and journaled data are not ordered with each other
fn matches_content(rec: &BTreeMap<String, (Vec<u64>, Vec<u64>)>, st: &BTreeMap<String, (Vec<u64>, bool)>) -> Result<(), String> {
    for (n, (point, scan)) in rec {
        match st.get(n) {
            Some((r, tainted)) => {
                if !*tainted && (point != r || scan != r) {
                    return Err(format!("{n}: get {point:?} iter {scan:?} vs {r:?}"));
                }
            }
            None => {
                if point.iter().any(|v| *v != 0) || scan.iter().any(|v| *v != 0) {
                    return Err(format!("{n}: not empty {point:?}"));
                }
            }
        }
    }
    Ok(())
}

pub fn run_crash(args: &CrashArgs) -> Outcome {
    let mut out = Outcome::default();
    let root = crate::util::scratch_root();
    let text = std::fs::read_to_string(&args.file).expect("read behaviours");
    let mut images_total = 0u64;
    let mut kf_seen: BTreeMap<String, String> = BTreeMap::new();
    for (bi, line) in text.lines().enumerate() {
        if line.trim().is_empty() {
            continue;
        }
        if args.max_behaviours > 0 && out.behaviours >= args.max_behaviours {
            break;
        }
        let steps: Vec<Value> = match serde_json::from_str::<Value>(line) {
            Ok(Value::Array(a)) => a,
            _ => continue,
        };
        let mut variant = Variant::from_index(args.seed.wrapping_add(bi as u64) % 16, &[]);
        variant.manual_persist = args.manual_persist;
        variant.manual_db = args.manual_db;
        variant.tx_batches = args.tx_batches;
        let dir = fresh_dir(&root, &format!("c{bi}"));
        let img_dir = fresh_dir(&root, &format!("c{bi}_img"));
        std::fs::create_dir_all(&img_dir).ok();
        let seed = args.seed ^ (bi as u64);

        // ---- run the behaviour under the adversary
        adv::start(&dir, Some(img_dir.clone()), true, args.split, None);
        adv::set_marker("open");
        let mut w = match World::new(dir.clone(), variant.clone(), seed, args.nkeys) {
            Ok(w) => w,
            Err(e) => {
                adv::stop();
                out.notes.push(format!("behaviour {bi}: open failed {e:?}"));
                continue;
            }
        };
        out.behaviours += 1;
        let sig: String = steps.iter().map(|s| s["act"].to_string()).collect();
        out.distinct.insert(hash_str(&sig));
        let mut prev: Option<Value> = None;
        let mut diverged: Option<String> = None;
        let mut executed = 0usize;
        for (si, step) in steps.iter().enumerate() {
            adv::set_marker(&format!("{si}"));
            let act = &step["act"];
            let r = std::panic::catch_unwind(std::panic::AssertUnwindSafe(|| w.exec(act, prev.as_ref())));
            match r {
                Ok(Ok(())) => {}
                Ok(Err(e)) => {
                    diverged = Some(format!("step {si} {act}: {e}"));
                    break;
                }
                Err(_) => {
                    diverged = Some(format!("step {si} {act}: panicked"));
                    break;
                }
            }
            adv::set_marker(&format!("{si}r"));
            let d = compare(&mut w, &step["st"], act, false);
            if !d.violations.is_empty() {
                diverged = Some(format!("step {si} {act}: {}", d.violations[0]));
                break;
            }
            for kmsg in d.known {
                let id = kmsg.split_whitespace().next().unwrap_or("").to_string();
                kf_seen.entry(id).or_insert(kmsg);
            }
            prev = Some(step["st"].clone());
            executed = si + 1;
            out.steps += 1;
        }
        adv::set_marker("drop");
        w.close();
        let ctl = adv::stop().expect("adversary state");
        if let Some(dv) = diverged {
            // plain replay divergence: reported by the replay checks; here only noted
            out.notes.push(format!("behaviour {bi}: replay diverged ({dv}); crash points up to that step are still examined"));
        }

        // ---- map images to steps
        let marker_of: BTreeMap<u64, String> = ctl.log.iter().map(|e| (e.n, e.marker.clone())).collect();
        let op_of: BTreeMap<u64, String> = ctl.log.iter().map(|e| (e.n, format!("{} {} len={}", e.op, e.path, e.len))).collect();
        let states: Vec<BTreeMap<String, (Vec<u64>, bool)>> = steps.iter().map(|s| model_content(&s["st"])).collect();
        let empty: BTreeMap<String, (Vec<u64>, bool)> = BTreeMap::new();
        // last sync point (power-loss lower bound): index into steps, -1 = creation
        let mut sync_points: Vec<i64> = vec![];
        {
            let mut last: i64 = -1;
            for (si, s) in steps.iter().enumerate() {
                sync_points.push(last);
                let a = s["act"]["a"].as_str().unwrap_or("");
                let syncs = a == "Reopen"
                    || (a == "Persist" && s["act"]["mode"].as_str().map_or(false, |m| m != "Buffer"))
                    || (a == "Batch" && s["act"]["dur"].as_str().map_or(false, |m| m == "SyncData" || m == "SyncAll"))
                    || (a == "Flush" && s["act"]["jrot"].as_bool().unwrap_or(false));
                if syncs {
                    last = si as i64;
                }
            }
        }
        let mut first_bad: Option<Value> = None;
        for (idx, (n, label)) in ctl.images.iter().enumerate() {
            if args.image_stride > 1 && (idx as u64) % args.image_stride != 0 && !label.contains('s') {
                let _ = std::fs::remove_dir_all(img_dir.join(label));
                continue;
            }
            let marker = marker_of.get(n).cloned().unwrap_or_default();
            let idir = img_dir.join(label);
            // which step is in flight
            let (si, reading): (i64, bool) = if marker == "open" {
                (-1, false)
            } else if marker == "drop" {
                (executed as i64, false)
            } else if let Some(m) = marker.strip_suffix('r') {
                (m.parse::<i64>().unwrap_or(0), true)
            } else {
                (marker.parse::<i64>().unwrap_or(0), false)
            };
            if si >= 0 && si as usize > executed {
                let _ = std::fs::remove_dir_all(&idir);
                continue;
            }
            if args.power {
                // discard journal bytes not covered by a sync: every range written since the
                // file's last successful fsync / fdatasync reads as zeros (the preallocated
                // content); the split images of a write in flight lose that write as well
                let unsynced = ctl.synced_history.get(idx).map(|x| x.1.clone()).unwrap_or_default();
                for (_, jp) in crate::journal::journal_files(&idir) {
                    let rel = jp.file_name().unwrap().to_string_lossy().to_string();
                    if let Ok(mut f) = std::fs::OpenOptions::new().write(true).open(&jp) {
                        use std::io::{Seek, SeekFrom, Write};
                        let len = f.metadata().map(|m| m.len()).unwrap_or(0);
                        for (off, l) in unsynced.get(&rel).cloned().unwrap_or_default() {
                            if off < len {
                                let n = l.min(len - off) as usize;
                                let _ = f.seek(SeekFrom::Start(off));
                                let _ = f.write_all(&vec![0u8; n]);
                            }
                        }
                    }
                }
            }
            images_total += 1;
            let conc = Concretizer::new(variant.key_scheme, variant.val_scheme, seed);
            let rec = project_image(&idir, &variant, &conc, args.nkeys);
            let _ = std::fs::remove_dir_all(&idir);
            let st_at = |j: i64| -> &BTreeMap<String, (Vec<u64>, bool)> {
                if j < 0 { &empty } else { &states[(j as usize).min(states.len() - 1)] }
            };
            let verdict: Result<(), String> = match &rec {
                Err(e) => Err(e.clone()),
                Ok(rec) => {
                    if !args.power {
                        // process crash: before or after the step in flight (after only, if the
                        // step had already returned)
                        let after = st_at(si.min(executed as i64 - 1).max(-1));
                        let before = st_at(si - 1);
                        let manual_any = args.manual_persist || args.manual_db;
                        let lo_manual = if manual_any { sync_points_manual(&steps, si, args.manual_persist, args.manual_db) } else { si - 1 };
                        let mut ok = Err(String::new());
                        if manual_any {
                            // names: before or after the step in flight; content: one step since
                            // the last persist, the same for every keyspace
                            let names_ok = |m: &BTreeMap<String, (Vec<u64>, bool)>| rec.keys().collect::<Vec<_>>() == m.keys().collect::<Vec<_>>();
                            let hi = si.min(executed as i64 - 1);
                            if !(names_ok(st_at(hi)) || names_ok(st_at(si - 1))) {
                                ok = Err(format!("keyspaces {:?}", rec.keys().collect::<Vec<_>>()));
                            } else {
                                for j in lo_manual.min(si - 1)..=hi {
                                    let r = matches_content(rec, st_at(j));
                                    if r.is_ok() {
                                        ok = r;
                                        break;
                                    }
                                    ok = r;
                                }
                            }
                        } else if si >= executed as i64 || reading {
                            ok = matches_state(rec, after);
                        } else {
                            for j in (si - 1)..=si {
                                let r = matches_state(rec, st_at(j));
                                if r.is_ok() {
                                    ok = r;
                                    break;
                                }
                                ok = r;
                            }
                            let _ = before;
                        }
                        ok
                    } else {
                        // power loss: per key, the value at some step in [last sync point, si]
                        let lb = if si < 0 { -1 } else { sync_points.get((si as usize).min(sync_points.len() - 1)).copied().unwrap_or(-1) };
                        let hi = si.min(executed as i64 - 1);
                        let mut res = Ok(());
                        'outer: for (n, (point, scan)) in rec {
                            for ki in 0..(args.nkeys as usize) {
                                let mut allowed: Vec<u64> = vec![];
                                let mut tainted = false;
                                for j in lb..=hi {
                                    match st_at(j).get(n) {
                                        Some((r, t)) => {
                                            allowed.push(r[ki]);
                                            tainted |= *t;
                                        }
                                        None => allowed.push(0),
                                    }
                                }
                                if tainted {
                                    continue;
                                }
                                if !allowed.contains(&point[ki]) || !allowed.contains(&scan[ki]) {
                                    res = Err(format!(
                                        "{n} key {} get {} iter {} not among the values since the last sync point {allowed:?}",
                                        ki + 1, point[ki], scan[ki]
                                    ));
                                    break 'outer;
                                }
                            }
                        }
                        // a keyspace that existed at the last sync point and was not deleted since
                        for (n, _) in st_at(lb) {
                            let still = (lb..=hi).all(|j| st_at(j).contains_key(n));
                            if still && !rec.contains_key(n) && res.is_ok() {
                                res = Err(format!("keyspace {n} lost"));
                            }
                        }
                        res
                    }
                }
            };
            if let Err(why) = verdict {
                // known finding D11: crash during first-time creation leaves a directory that
                // cannot be opened any more
                let is_d11 = marker == "open" && why.contains("open failed");
                if is_d11 && args.allowed_kf.iter().any(|k| k == "D11") {
                    kf_seen.entry("D11".into()).or_insert(format!(
                        "D11 crash during first-time creation (before call {n}: {}) leaves a directory that cannot be opened: {why}",
                        op_of.get(n).cloned().unwrap_or_default()
                    ));
                    continue;
                }
                if first_bad.is_none() {
                    first_bad = Some(json!({
                        "image": label, "call": n, "syscall": op_of.get(n), "marker": marker,
                        "step_in_flight": si, "why": why,
                        "recovered": rec.as_ref().ok().map(|r| r.iter().map(|(k, v)| (k.clone(), json!({"get": v.0, "iter": v.1}))).collect::<BTreeMap<_, _>>()),
                    }));
                }
            }
        }
        if let Some(bad) = first_bad {
            let rp = args.out_dir.join(format!("crash_{}_{}{}.json", args.property, bi, if args.power { "p" } else { "" }));
            let doc = json!({
                "property": args.property,
                "kind": if args.power { "power-loss-image" } else { "crash-image" },
                "behaviour_index": bi, "variant": variant.describe(), "seed": seed, "nkeys": args.nkeys,
                "manual_persist": args.manual_persist,
                "manual_persist_database": args.manual_db,
                "batches_as_transactions": args.tx_batches,
                "first_bad_image": bad,
                "syscalls": ctl.log.iter().map(|e| json!([e.n, e.marker, e.op, e.path, e.len, e.ret])).collect::<Vec<_>>(),
                "behaviour": steps,
            });
            std::fs::write(&rp, serde_json::to_string_pretty(&doc).unwrap()).ok();
            out.violations.push(json!({"replay": rp.to_string_lossy(), "step": bad["step_in_flight"], "first": format!("image before call {} ({}): {}", bad["call"], bad["syscall"], bad["why"])}));
        }
        if out.samples.len() < 2 {
            out.samples.push(json!({
                "variant": variant.describe(),
                "actions": steps.iter().map(|s| s["act"].clone()).collect::<Vec<_>>(),
                "mutating_calls": ctl.log.len(), "images": ctl.images.len(),
                "first_calls": ctl.log.iter().take(12).map(|e| format!("{} {} {} len={}", e.marker, e.op, e.path, e.len)).collect::<Vec<_>>(),
            }));
        }
        let _ = std::fs::remove_dir_all(&dir);
        let _ = std::fs::remove_dir_all(&img_dir);
    }
    for (id, msg) in kf_seen {
        if args.allowed_kf.iter().any(|a| *a == id) {
            out.known.push(json!({"id": id, "example": msg}));
        } else {
            out.violations.push(json!({"replay": "", "step": -1, "first": format!("(unlisted finding) {msg}")}));
        }
    }
    out.notes.push(format!("images_examined={images_total}"));
    let _ = std::fs::remove_dir_all(&root);
    out
}

/// With manual journal persist, a process crash may lose everything after the last persist of
/// any mode (or reopen): returns the index of that step (or -1).
/// Last step before `si` after which everything acknowledged so far is in the OS (process-crash
/// lower bound with manual journal persist): reopen, persist of any mode, a journal rotation, a
/// batch that persists (explicit durability, or the default one when the database is not in manual
/// mode), a single write when the keyspaces are not in manual mode.
fn sync_points_manual(steps: &[Value], si: i64, manual_ks: bool, manual_db: bool) -> i64 {
    let mut last = -1;
    for (j, s) in steps.iter().enumerate() {
        if j as i64 >= si {
            break;
        }
        let a = s["act"]["a"].as_str().unwrap_or("");
        let batch_persists = a == "Batch" && (!manual_db || s["act"]["dur"].as_str().map_or(false, |d| d != "none"));
        let single_persists = !manual_ks && (a == "Insert" || a == "Remove" || a == "Clear");
        if a == "Reopen" || a == "Persist" || (a == "Flush" && s["act"]["jrot"].as_bool().unwrap_or(false)) || batch_persists || single_persists {
            last = j as i64;
        }
    }
    last
}


pub fn project_image_pub(dir: &Path, variant: &Variant, conc: &Concretizer, nkeys: u64) -> Result<BTreeMap<String, (Vec<u64>, Vec<u64>)>, String> {
    project_image(dir, variant, conc, nkeys)
}
pub fn model_content_pub(st: &Value) -> BTreeMap<String, (Vec<u64>, bool)> {
    model_content(st)
}
pub fn matches_state_pub(rec: &BTreeMap<String, (Vec<u64>, Vec<u64>)>, st: &BTreeMap<String, (Vec<u64>, bool)>) -> Result<(), String> {
    matches_state(rec, st)
}
