mod adv;
mod crash;
mod fault;
mod jfile;
mod life;
mod journal;
mod mt;
mod opts;
mod store;
mod txreplay;
mod util;

use serde_json::json;
use std::path::PathBuf;

fn arg(args: &[String], name: &str) -> Option<String> {
    args.iter()
        .position(|a| a == name)
        .and_then(|i| args.get(i + 1).cloned())
}

fn main() {
    let args: Vec<String> = std::env::args().collect();
    let cmd = args.get(1).map(String::as_str).unwrap_or("");
    // panics in the code under test are data; keep the default hook quiet
    if std::env::var("VH_PANIC_VERBOSE").is_err() { std::panic::set_hook(Box::new(|_| {})); }
    match cmd {
        "replay" => {
            let a = store::ReplayArgs {
                file: PathBuf::from(arg(&args, "--file").expect("--file")),
                out_dir: PathBuf::from(arg(&args, "--out").unwrap_or("/verif/work".into())),
                property: arg(&args, "--property").unwrap_or("C00".into()),
                seed: arg(&args, "--seed").and_then(|s| s.parse().ok()).unwrap_or(1),
                nkeys: arg(&args, "--nkeys").and_then(|s| s.parse().ok()).unwrap_or(2),
                variants: arg(&args, "--variants").and_then(|s| s.parse().ok()).unwrap_or(16),
                deep_every: arg(&args, "--deep-every").and_then(|s| s.parse().ok()).unwrap_or(3),
                filter_names: arg(&args, "--filter-names")
                    .map(|s| s.split(',').filter(|x| !x.is_empty()).map(String::from).collect())
                    .unwrap_or_default(),
                allowed_kf: arg(&args, "--kf")
                    .map(|s| s.split(',').filter(|x| !x.is_empty()).map(String::from).collect())
                    .unwrap_or_default(),
                max_behaviours: arg(&args, "--max").and_then(|s| s.parse().ok()).unwrap_or(0),
            };
            std::fs::create_dir_all(&a.out_dir).ok();
            let out = store::run_replay(&a);
            println!("{}", serde_json::to_string(&json!({"result": out.to_json()})).unwrap());
        }
        "crash" => {
            let a = crash::CrashArgs {
                file: PathBuf::from(arg(&args, "--file").expect("--file")),
                out_dir: PathBuf::from(arg(&args, "--out").unwrap_or("/verif/work".into())),
                property: arg(&args, "--property").unwrap_or("C02".into()),
                seed: arg(&args, "--seed").and_then(|s| s.parse().ok()).unwrap_or(1),
                nkeys: arg(&args, "--nkeys").and_then(|s| s.parse().ok()).unwrap_or(2),
                power: args.iter().any(|x| x == "--power"),
                manual_persist: args.iter().any(|x| x == "--manual-persist" || x == "--manual-persist-ks"),
                manual_db: args.iter().any(|x| x == "--manual-persist" || x == "--manual-persist-db"),
                tx_batches: args.iter().any(|x| x == "--tx-batches"),
                split: !args.iter().any(|x| x == "--no-split"),
                allowed_kf: arg(&args, "--kf")
                    .map(|s| s.split(',').filter(|x| !x.is_empty()).map(String::from).collect())
                    .unwrap_or_default(),
                max_behaviours: arg(&args, "--max").and_then(|s| s.parse().ok()).unwrap_or(0),
                image_stride: arg(&args, "--stride").and_then(|s| s.parse().ok()).unwrap_or(1),
            };
            std::fs::create_dir_all(&a.out_dir).ok();
            let out = crash::run_crash(&a);
            println!("{}", serde_json::to_string(&json!({"result": out.to_json()})).unwrap());
        }
        "fault" => {
            let a = fault::FaultArgs {
                file: PathBuf::from(arg(&args, "--file").expect("--file")),
                out_dir: PathBuf::from(arg(&args, "--out").unwrap_or("/verif/work".into())),
                property: arg(&args, "--property").unwrap_or("C13".into()),
                seed: arg(&args, "--seed").and_then(|s| s.parse().ok()).unwrap_or(1),
                nkeys: arg(&args, "--nkeys").and_then(|s| s.parse().ok()).unwrap_or(2),
                allowed_kf: arg(&args, "--kf")
                    .map(|s| s.split(',').filter(|x| !x.is_empty()).map(String::from).collect())
                    .unwrap_or_default(),
                max_behaviours: arg(&args, "--max").and_then(|s| s.parse().ok()).unwrap_or(0),
                stride: arg(&args, "--stride").and_then(|s| s.parse().ok()).unwrap_or(1),
            };
            std::fs::create_dir_all(&a.out_dir).ok();
            let out = fault::run_fault_seq(&a);
            println!("{}", serde_json::to_string(&json!({"result": out.to_json()})).unwrap());
        }
        "fault-mt" => {
            let a = fault::FaultMtArgs {
                out_dir: PathBuf::from(arg(&args, "--out").unwrap_or("/verif/work".into())),
                seed: arg(&args, "--seed").and_then(|s| s.parse().ok()).unwrap_or(1),
                runs: arg(&args, "--runs").and_then(|s| s.parse().ok()).unwrap_or(20),
                threads: arg(&args, "--threads").and_then(|s| s.parse().ok()).unwrap_or(4),
                ops_per_thread: arg(&args, "--ops").and_then(|s| s.parse().ok()).unwrap_or(30),
            };
            std::fs::create_dir_all(&a.out_dir).ok();
            let out = fault::run_fault_mt(&a);
            println!("{}", serde_json::to_string(&json!({"result": out.to_json()})).unwrap());
        }
        "jcut" | "jalter" => {
            let a = jfile::JArgs {
                out_dir: PathBuf::from(arg(&args, "--out").unwrap_or("/verif/work".into())),
                property: arg(&args, "--property").unwrap_or("C03".into()),
                seed: arg(&args, "--seed").and_then(|s| s.parse().ok()).unwrap_or(1),
                stride: arg(&args, "--stride").and_then(|s| s.parse().ok()).unwrap_or(1),
                allowed_kf: arg(&args, "--kf")
                    .map(|s| s.split(',').filter(|x| !x.is_empty()).map(String::from).collect())
                    .unwrap_or_default(),
            };
            std::fs::create_dir_all(&a.out_dir).ok();
            let out = if cmd == "jcut" { jfile::run_cut(&a) } else { jfile::run_alter(&a) };
            println!("{}", serde_json::to_string(&json!({"result": out.to_json()})).unwrap());
        }
        "txreplay" => {
            let a = txreplay::TxArgs {
                file: PathBuf::from(arg(&args, "--file").expect("--file")),
                out_dir: PathBuf::from(arg(&args, "--out").unwrap_or("/verif/work".into())),
                property: arg(&args, "--property").unwrap_or("C07".into()),
                seed: arg(&args, "--seed").and_then(|s| s.parse().ok()).unwrap_or(1),
                nkeys: arg(&args, "--nkeys").and_then(|s| s.parse().ok()).unwrap_or(2),
                kssplit: arg(&args, "--kssplit").and_then(|s| s.parse().ok()).unwrap_or(0),
                single_writer: args.iter().any(|x| x == "--single-writer"),
                allowed_kf: arg(&args, "--kf")
                    .map(|s| s.split(',').filter(|x| !x.is_empty()).map(String::from).collect())
                    .unwrap_or_default(),
            };
            std::fs::create_dir_all(&a.out_dir).ok();
            let out = txreplay::run_tx_replay(&a);
            println!("{}", serde_json::to_string(&json!({"result": out.to_json()})).unwrap());
        }
        "mt" => {
            let a = mt::MtArgs {
                out_dir: PathBuf::from(arg(&args, "--out").unwrap_or("/verif/work".into())),
                seed: arg(&args, "--seed").and_then(|s| s.parse().ok()).unwrap_or(1),
                runs: arg(&args, "--runs").and_then(|s| s.parse().ok()).unwrap_or(10),
                threads: arg(&args, "--threads").and_then(|s| s.parse().ok()).unwrap_or(4),
                ops: arg(&args, "--ops").and_then(|s| s.parse().ok()).unwrap_or(200),
                workers: arg(&args, "--workers").and_then(|s| s.parse().ok()).unwrap_or(2),
                snapshots: !args.iter().any(|x| x == "--no-snapshots"),
                single_writer: args.iter().any(|x| x == "--single-writer"),
                scans: args.iter().any(|x| x == "--scans"),
            };
            std::fs::create_dir_all(&a.out_dir).ok();
            let out = if args.iter().any(|x| x == "--tx") { mt::run_mt_tx(&a) } else { mt::run_mt(&a) };
            println!("{}", serde_json::to_string(&json!({"result": out.to_json()})).unwrap());
        }
        "life-mt" => {
            let a = life::LifeMtArgs {
                out_dir: PathBuf::from(arg(&args, "--out").unwrap_or("/verif/work".into())),
                seed: arg(&args, "--seed").and_then(|s| s.parse().ok()).unwrap_or(1),
                runs: arg(&args, "--runs").and_then(|s| s.parse().ok()).unwrap_or(10),
                threads: arg(&args, "--threads").and_then(|s| s.parse().ok()).unwrap_or(4),
                ops: arg(&args, "--ops").and_then(|s| s.parse().ok()).unwrap_or(60),
            };
            std::fs::create_dir_all(&a.out_dir).ok();
            let out = life::run_life_mt(&a);
            println!("{}", serde_json::to_string(&json!({"result": out.to_json()})).unwrap());
            std::process::exit(0);
        }
        "opts" => {
            let a = opts::OptsArgs {
                file: PathBuf::from(arg(&args, "--file").expect("--file")),
                out_dir: PathBuf::from(arg(&args, "--out").unwrap_or("/verif/work".into())),
                seed: arg(&args, "--seed").and_then(|s| s.parse().ok()).unwrap_or(1),
            };
            std::fs::create_dir_all(&a.out_dir).ok();
            let out = opts::run_opts(&a);
            println!("{}", serde_json::to_string(&json!({"result": out.to_json()})).unwrap());
        }
        "life-replay" => {
            let a = life::LifeReplayArgs {
                file: PathBuf::from(arg(&args, "--file").expect("--file")),
                out_dir: PathBuf::from(arg(&args, "--out").unwrap_or("/verif/work".into())),
                seed: arg(&args, "--seed").and_then(|s| s.parse().ok()).unwrap_or(1),
            };
            std::fs::create_dir_all(&a.out_dir).ok();
            let out = life::run_life_replay(&a);
            println!("{}", serde_json::to_string(&json!({"result": out.to_json()})).unwrap());
            std::process::exit(0);
        }
        "life-forced" => {
            let which = arg(&args, "--scenario").unwrap_or_default();
            let r = life::run_forced(&which);
            println!("{}", serde_json::to_string(&json!({"result": r})).unwrap());
            // a hung drop leaves a stuck thread behind: leave without joining it
            std::process::exit(0);
        }
        "mt-flood" => {
            let out_dir = PathBuf::from(arg(&args, "--out").unwrap_or("/verif/work".into()));
            std::fs::create_dir_all(&out_dir).ok();
            let f = if args.iter().any(|x| x == "--multi") { mt::run_flood_multi } else { mt::run_flood };
            let out = f(
                &out_dir,
                arg(&args, "--seed").and_then(|s| s.parse().ok()).unwrap_or(1),
                arg(&args, "--rounds").and_then(|s| s.parse().ok()).unwrap_or(6),
                arg(&args, "--secs").and_then(|s| s.parse().ok()).unwrap_or(3),
            );
            println!("{}", serde_json::to_string(&json!({"result": out.to_json()})).unwrap());
            std::process::exit(0);
        }
        "forced-stall" => {
            let root = util::scratch_root();
            let dir = util::fresh_dir(&root, "stall");
            let workers = arg(&args, "--workers").and_then(|s| s.parse().ok()).unwrap_or(4);
            let secs = arg(&args, "--secs").and_then(|s| s.parse().ok()).unwrap_or(10);
            // the schedule itself runs under a watchdog: with a worker parked at the pause site a
            // call of the driver may never come back (e.g. if the site lies inside a lock region)
            let (tx, rx) = std::sync::mpsc::channel();
            let d2 = dir.clone();
            std::thread::spawn(move || {
                let _ = tx.send(mt::forced_stall(&d2, workers, secs));
            });
            let r = match rx.recv_timeout(std::time::Duration::from_secs(secs + 45)) {
                Ok(Ok(v)) => v,
                Ok(Err(e)) => json!({"error": e}),
                Err(_) => json!({"error": "the driver did not get through the schedule (a call did not return while a worker was parked at the pause site)"}),
            };
            println!("{}", serde_json::to_string(&json!({"result": r})).unwrap());
            std::process::exit(0);
        }
        "forced-torn" => {
            let root = util::scratch_root();
            let dir = util::fresh_dir(&root, "torn");
            let r = mt::forced_torn_batch(&dir);
            let _ = std::fs::remove_dir_all(&root);
            println!("{}", serde_json::to_string(&json!({"result": match r { Ok(v) => v, Err(e) => json!({"error": e}) }})).unwrap());
        }
        _ => {
            eprintln!("usage: vh replay --file F --out DIR --property Cxx [--seed N] ...");
            std::process::exit(2);
        }
    }
}
