//! Shared helpers: scratch directories, concretisation of model keys/values, result records.

use serde_json::{json, Value};
use std::path::{Path, PathBuf};

pub fn scratch_root() -> PathBuf {
    let base = if Path::new("/dev/shm").is_dir() {
        PathBuf::from("/dev/shm")
    } else {
        PathBuf::from("/verif/work/tmp")
    };
    let p = base.join(format!("fjv-{}", std::process::id()));
    std::fs::create_dir_all(&p).expect("scratch dir");
    p
}

pub fn fresh_dir(root: &Path, name: &str) -> PathBuf {
    let p = root.join(name);
    let _ = std::fs::remove_dir_all(&p);
    p
}

/// Concretisation of abstract keys (naturals 1..n, ordered) and values (naturals, 0 = absent).
#[derive(Clone, Debug)]
pub struct Concretizer {
    pub key_scheme: u32,
    pub val_scheme: u32,
    pub seed: u64,
}

fn splitmix(mut x: u64) -> u64 {
    x = x.wrapping_add(0x9E37_79B9_7F4A_7C15);
    let mut z = x;
    z = (z ^ (z >> 30)).wrapping_mul(0xBF58_476D_1CE4_E5B9);
    z = (z ^ (z >> 27)).wrapping_mul(0x94D0_49BB_1331_11EB);
    z ^ (z >> 31)
}

impl Concretizer {
    pub fn new(key_scheme: u32, val_scheme: u32, seed: u64) -> Self {
        Self {
            key_scheme,
            val_scheme,
            seed,
        }
    }

    /// Order-preserving map from model keys to byte strings.
    pub fn key(&self, k: u64) -> Vec<u8> {
        match self.key_scheme % 4 {
            // prefixes of each other, embedded NUL
            0 => match k {
                1 => b"a".to_vec(),
                2 => b"ab".to_vec(),
                3 => b"b\0".to_vec(),
                4 => b"b\0\0".to_vec(),
                n => format!("c{n:04}").into_bytes(),
            },
            // fixed-width big endian
            1 => (k as u64).to_be_bytes().to_vec(),
            // long keys sharing a long prefix
            2 => {
                let mut v = vec![b'k'; 300];
                v.extend_from_slice(format!("{k:03}").as_bytes());
                v
            }
            // high bytes
            _ => vec![0xf0 + (k as u8), 0xff],
        }
    }

    /// A key of the concrete key space that no model key maps to (lies between / around them).
    pub fn absent_keys(&self) -> Vec<Vec<u8>> {
        match self.key_scheme % 4 {
            0 => vec![b"".to_vec(), b"aa".to_vec(), b"b".to_vec(), b"zz".to_vec()],
            1 => vec![0u64.to_be_bytes().to_vec(), vec![0xff; 9]],
            2 => vec![vec![b'k'; 300], vec![b'k'; 10]],
            _ => vec![vec![0xf0], vec![0xff, 0xff, 0xff]],
        }
    }

    /// Value bytes for model value v (> 0). Distinguishable per v; length class and
    /// compressibility depend on (scheme, seed, v).
    pub fn val(&self, v: u64) -> Vec<u8> {
        assert!(v > 0);
        let h = splitmix(self.seed ^ v.wrapping_mul(0x1234_5678_9abc_def1));
        let classes: &[usize] = match self.val_scheme % 4 {
            0 => &[6, 6, 7, 9],
            1 => &[6, 40, 100, 1023, 1024, 1025, 5000],
            2 => &[6, 4095, 4096, 4097, 9000, 70_000],
            _ => &[6, 64, 2000, 20_000],
        };
        let len = classes[(h % classes.len() as u64) as usize].max(6);
        let mut out = format!("v{v:05}").into_bytes();
        let compressible = (h >> 20) & 1 == 0;
        let mut x = h;
        while out.len() < len {
            if compressible {
                out.push(b'x');
            } else {
                x = splitmix(x);
                out.push((x & 0xff) as u8);
            }
        }
        out
    }

    /// Recovers the model value from concrete bytes (0 if not decodable).
    pub fn unval(&self, bytes: &[u8]) -> u64 {
        if bytes.len() >= 6 && bytes[0] == b'v' {
            if let Ok(s) = std::str::from_utf8(&bytes[1..6]) {
                if let Ok(n) = s.parse::<u64>() {
                    // must be bit-exact
                    if self.val(n) == bytes {
                        return n;
                    }
                    return u64::MAX; // corrupted / altered value
                }
            }
        }
        u64::MAX
    }
}

#[derive(Default)]
pub struct Outcome {
    pub behaviours: u64,
    pub steps: u64,
    pub distinct: std::collections::HashSet<u64>,
    pub violations: Vec<Value>,
    pub known: Vec<Value>,
    pub notes: Vec<String>,
    pub samples: Vec<Value>,
}

impl Outcome {
    pub fn to_json(&self) -> Value {
        json!({
            "behaviours": self.behaviours,
            "steps": self.steps,
            "distinct": self.distinct.len(),
            "violations": self.violations,
            "known": self.known,
            "notes": self.notes,
            "samples": self.samples,
        })
    }
}

pub fn hash_str(s: &str) -> u64 {
    let mut h: u64 = 0xcbf2_9ce4_8422_2325;
    for b in s.bytes() {
        h ^= u64::from(b);
        h = h.wrapping_mul(0x0100_0000_01b3);
    }
    h
}

pub fn hexs(b: &[u8]) -> String {
    if b.len() > 24 {
        format!("{}..({}B)", fjall::verif::hex(&b[..24]), b.len())
    } else {
        fjall::verif::hex(b)
    }
}
