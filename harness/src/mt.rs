//! Multi-threaded drivers: real worker threads, tiny memtables, several client threads writing,
//! reading (plain and through snapshots) through cloned handles.  The hooks in the writers'
//! critical sections and the harness's call/return events form one globally ordered trace that
//! is validated against FjallMVCC (MVCC_Trace).  Forced schedules (pause sites) realise the
//! interleavings TLC reports as counterexamples deterministically.

use crate::store::Variant;
use crate::util::{fresh_dir, hash_str, Concretizer, Outcome};
use fjall::verif::{emit, F};
use fjall::{Database, KeyspaceCreateOptions, Readable};
use rand::{Rng, SeedableRng};
use serde_json::json;
use std::path::PathBuf;
use std::sync::Arc;

pub struct MtArgs {
    pub out_dir: PathBuf,
    pub seed: u64,
    pub runs: u64,
    pub threads: u64,
    pub ops: u64,
    pub workers: usize,
    pub snapshots: bool,
    pub single_writer: bool,
    /// plain scans instead of snapshots, no rotation / flush / clear (no version upgrades): the
    /// single-scan clause of C06 checked exactly
    pub scans: bool,
}

fn items_json(items: &[(u64, u64, u64)]) -> String {
    let v: Vec<String> = items.iter().map(|(ks, k, v)| format!("[{ks},{k},{v}]")).collect();
    format!("[{}]", v.join(","))
}

/// value encoding for the MT driver: model value n -> bytes (length varies so that memtables
/// rotate often)
fn val(n: u64) -> Vec<u8> {
    let mut b = format!("m{n:07}").into_bytes();
    b.resize(8 + (n % 7) as usize * 60, b'.');
    b
}
fn unval(b: &[u8]) -> u64 {
    if b.len() >= 8 && b[0] == b'm' {
        std::str::from_utf8(&b[1..8]).ok().and_then(|s| s.parse().ok()).unwrap_or(u64::MAX)
    } else {
        u64::MAX
    }
}

pub fn run_mt(args: &MtArgs) -> Outcome {
    let mut out = Outcome::default();
    let root = crate::util::scratch_root();
    let mut rng = rand::rngs::StdRng::seed_from_u64(args.seed);
    let trace_path = args.out_dir.join("mt_trace.ndjson");
    let mut all: Vec<String> = vec![];
    let nkeys = 4u64;
    for run in 0..args.runs {
        let dir = fresh_dir(&root, &format!("mt{run}"));
        let variant = Variant::from_index(rng.gen_range(0..16), &[]);
        let conc = Concretizer::new(1, 0, 0);
        let db = match Database::builder(&dir).worker_threads(args.workers.max(1)).open() {
            Ok(d) => d,
            Err(_) => continue,
        };
        let mk = |name: &str| {
            db.keyspace(name, || {
                let mut o = KeyspaceCreateOptions::default().max_memtable_size(if args.scans { 256 * 1024 * 1024 } else { 2_000 });
                if variant.kv_sep {
                    o = o.with_kv_separation(Some(fjall::KvSeparationOptions::default().separation_threshold(100)));
                }
                o
            })
            .unwrap()
        };
        let kss = Arc::new(vec![mk("a"), mk("b")]);
        fjall::verif::trace_start();
        emit("Reset", &[("seqno", F::U(db.seqno())), ("vis", F::U(db.visible_seqno()))]);
        let watchdog = std::time::Instant::now();
        let mut handles = vec![];
        for t in 0..args.threads {
            let db = db.clone();
            let kss = kss.clone();
            let conc = conc.clone();
            let seed = args.seed ^ (run << 10) ^ (t * 7919);
            let n = args.ops;
            let snaps = args.snapshots;
            let scans = args.scans;
            handles.push(std::thread::spawn(move || {
                fjall::verif::set_thread_tag(t + 1);
                let mut rng = rand::rngs::StdRng::seed_from_u64(seed);
                let mut vctr = (t + 1) * 100_000;
                let mut vid_ctr = (t + 1) * 1000;
                for _ in 0..n {
                    let ks = rng.gen_range(0..2usize);
                    let k = rng.gen_range(1..=nkeys);
                    let key = conc.key(k);
                    match rng.gen_range(0..100) {
                        0..=34 => {
                            vctr += 1;
                            emit("CallW", &[("items", F::Raw(items_json(&[(ks as u64 + 1, k, vctr)])))]);
                            let r = kss[ks].insert(key, val(vctr));
                            emit("RetW", &[("ok", F::B(r.is_ok()))]);
                        }
                        35..=44 => {
                            emit("CallW", &[("items", F::Raw(items_json(&[(ks as u64 + 1, k, 0)])))]);
                            let r = kss[ks].remove(key);
                            emit("RetW", &[("ok", F::B(r.is_ok()))]);
                        }
                        45..=59 => {
                            // batch over both keyspaces, 2-4 items (distinct cells)
                            let mut items: Vec<(u64, u64, u64)> = vec![];
                            let cnt = rng.gen_range(2..=4);
                            let mut b = db.batch();
                            for i in 0..cnt {
                                let ksi = (ks + i) % 2;
                                let kk = 1 + (k + i as u64 / 2) % nkeys;
                                if items.iter().any(|(a, b2, _)| *a == ksi as u64 + 1 && *b2 == kk) {
                                    continue;
                                }
                                vctr += 1;
                                if rng.gen_range(0..5) == 0 {
                                    b.remove(&kss[ksi], conc.key(kk));
                                    items.push((ksi as u64 + 1, kk, 0));
                                } else {
                                    b.insert(&kss[ksi], conc.key(kk), val(vctr));
                                    items.push((ksi as u64 + 1, kk, vctr));
                                }
                            }
                            emit("CallW", &[("items", F::Raw(items_json(&items)))]);
                            let r = b.commit();
                            emit("RetW", &[("ok", F::B(r.is_ok()))]);
                        }
                        60..=61 if !scans => {
                            emit("CallW", &[("items", F::Raw(items_json(&[(ks as u64 + 1, 0, 0)])))]);
                            let r = kss[ks].clear();
                            emit("RetW", &[("ok", F::B(r.is_ok()))]);
                        }
                        60..=61 => {}
                        62..=84 if scans => {
                            // one plain scan of a keyspace (no snapshot object): every model key's value
                            emit("SCall", &[]);
                            let it = match rng.gen_range(0..4) {
                                0 => kss[ks].iter(),
                                1 => kss[ks].range::<Vec<u8>, _>(..),
                                2 => kss[ks].prefix(b""),
                                _ => kss[ks].range::<Vec<u8>, _>(conc.key(1)..),
                            };
                            let mut seen = vec![0u64; nkeys as usize];
                            let rev = rng.gen_bool(0.3);
                            let items: Vec<_> = if rev { it.rev().collect() } else { it.collect() };
                            for g in items {
                                if let Ok((kb, v)) = g.into_inner() {
                                    if let Some(kk) = (1..=nkeys).find(|x| conc.key(*x)[..] == kb[..]) {
                                        seen[kk as usize - 1] = unval(&v);
                                    }
                                }
                            }
                            let cells: Vec<(u64, u64, u64)> = (1..=nkeys).map(|kk| (ks as u64 + 1, kk, seen[kk as usize - 1])).collect();
                            emit("ScanRet", &[("cells", F::Raw(items_json(&cells)))]);
                        }
                        62..=84 => {
                            emit("CallR", &[("c", F::Raw(format!("[{},{}]", ks + 1, k)))]);
                            let r = kss[ks].get(&key).ok().flatten().map_or(0, |b| unval(&b));
                            emit("RetR", &[("val", F::U(r))]);
                        }
                        _ => {
                            if !snaps {
                                continue;
                            }
                            vid_ctr += 1;
                            emit("SCall", &[]);
                            let s = db.snapshot();
                            emit("SOpen", &[("vid", F::U(vid_ctr)), ("inst", F::U(s.seqno()))]);
                            for _ in 0..rng.gen_range(1..4) {
                                let ks2 = rng.gen_range(0..2usize);
                                let k2 = rng.gen_range(1..=nkeys);
                                let r = s.get(&kss[ks2], conc.key(k2)).ok().flatten().map_or(0, |b| unval(&b));
                                emit("SRead", &[("vid", F::U(vid_ctr)), ("c", F::Raw(format!("[{},{}]", ks2 + 1, k2))), ("val", F::U(r))]);
                                // scans must agree with point reads inside the snapshot
                                if let Some(g) = s.range::<Vec<u8>, _>(&kss[ks2], conc.key(k2)..=conc.key(k2)).next() {
                                    let v = g.value().ok().map_or(0, |b| unval(&b));
                                    emit("SRead", &[("vid", F::U(vid_ctr)), ("c", F::Raw(format!("[{},{}]", ks2 + 1, k2))), ("val", F::U(v))]);
                                } else {
                                    emit("SRead", &[("vid", F::U(vid_ctr)), ("c", F::Raw(format!("[{},{}]", ks2 + 1, k2))), ("val", F::U(0))]);
                                }
                                std::thread::yield_now();
                            }
                            emit("SClose", &[("vid", F::U(vid_ctr))]);
                            drop(s);
                        }
                    }
                }
            }));
        }
        let mut panicked = 0;
        // liveness (C14: writers always proceed eventually): the client threads of a run finish
        // within seconds; a thread that is still running after the watchdog period is stuck
        // (write stall that never ends, journal mutex never released, ...)
        let (jtx, jrx) = std::sync::mpsc::channel();
        let n_threads = handles.len();
        for h in handles {
            let jtx = jtx.clone();
            std::thread::spawn(move || {
                let _ = jtx.send(h.join().is_err());
            });
        }
        let deadline = std::time::Instant::now() + std::time::Duration::from_secs(90);
        let mut finished = 0;
        while finished < n_threads {
            let left = deadline.saturating_duration_since(std::time::Instant::now());
            match jrx.recv_timeout(left) {
                Ok(p) => {
                    finished += 1;
                    if p {
                        panicked += 1;
                    }
                }
                Err(_) => break,
            }
        }
        if finished < n_threads {
            fjall::verif::trace_stop();
            let ev = fjall::verif::trace_take();
            all.extend(ev);
            std::fs::write(&trace_path, all.join("\n") + "\n").ok();
            out.behaviours += 1;
            out.violations.push(json!({"replay": trace_path.to_string_lossy(), "step": run,
                "first": format!("{} of {n_threads} client threads did not finish within 90 s in run {run} (writers blocked for ever; sealed memtables a = {}, b = {})",
                    n_threads - finished, kss[0].sealed_memtable_count(), kss[1].sealed_memtable_count())}));
            // the stuck threads own handles of the database: leave everything behind
            std::mem::forget(kss);
            std::mem::forget(db);
            return out;
        }
        // final content: get and iter of every cell
        for (i, ks) in kss.iter().enumerate() {
            for k in 1..=nkeys {
                let g = ks.get(conc.key(k)).ok().flatten().map_or(0, |b| unval(&b));
                emit("Final", &[("c", F::Raw(format!("[{},{}]", i + 1, k))), ("val", F::U(g))]);
            }
            for g in ks.iter() {
                if let Ok((kb, v)) = g.into_inner() {
                    if let Some(k) = (1..=nkeys).find(|x| conc.key(*x)[..] == kb[..]) {
                        emit("Final", &[("c", F::Raw(format!("[{},{}]", i + 1, k))), ("val", F::U(unval(&v)))]);
                    }
                }
            }
        }
        fjall::verif::trace_stop();
        let ev = fjall::verif::trace_take();
        out.behaviours += 1;
        out.steps += ev.len() as u64;
        out.distinct.insert(hash_str(&format!("{run}-{}", ev.len())));
        if panicked > 0 {
            out.violations.push(json!({"replay": trace_path.to_string_lossy(), "step": run, "first": format!("{panicked} client thread(s) panicked in run {run}")}));
        }
        if watchdog.elapsed().as_secs() > 120 {
            out.notes.push(format!("run {run} took {}s", watchdog.elapsed().as_secs()));
        }
        if out.samples.len() < 2 {
            out.samples.push(json!({"threads": args.threads, "workers": args.workers, "events": ev.len(),
                "sealed_a": kss[0].sealed_memtable_count(), "tables_a": kss[0].table_count(),
                "excerpt": ev.iter().skip(1).take(8).cloned().collect::<Vec<_>>()}));
        }
        all.extend(ev);
        drop(kss);
        // drop with a watchdog: background threads must stop
        let (tx, rx) = std::sync::mpsc::channel();
        std::thread::spawn(move || {
            drop(db);
            let _ = tx.send(());
        });
        if rx.recv_timeout(std::time::Duration::from_secs(30)).is_err() {
            out.violations.push(json!({"replay": trace_path.to_string_lossy(), "step": run, "first": "dropping the database did not return within 30 s"}));
        }
        let _ = std::fs::remove_dir_all(&dir);
    }
    std::fs::write(&trace_path, all.join("\n") + "\n").ok();
    out.notes.push(format!("trace={}", trace_path.to_string_lossy()));
    let _ = std::fs::remove_dir_all(&root);
    out
}

/// Forced schedule for D7 / C06: a writer is parked between the two applies of a batch over
/// two keyspaces while another keyspace is flushed (version upgrade raises the visible seqno);
/// a snapshot opened then reads both keys of the batch.  Returns (instant, batch seqno, seen k1,
/// seen k2, later k1, later k2).
pub fn forced_torn_batch(dir: &std::path::Path) -> Result<serde_json::Value, String> {
    let e = |x: fjall::Error| format!("{x:?}");
    let db = Database::builder(dir).worker_threads_unchecked(0).open().map_err(e)?;
    let a = db.keyspace("a", KeyspaceCreateOptions::default).map_err(e)?;
    let b = db.keyspace("b", KeyspaceCreateOptions::default).map_err(e)?;
    let z = db.keyspace("z", KeyspaceCreateOptions::default).map_err(e)?;
    z.insert("x", "x").map_err(e)?;
    z.rotate_memtable().map_err(e)?; // a flush task for z is queued
    fjall::verif::disarm_all();
    fjall::verif::trace_start();
    // the flush worker is parked after it released the journal mutex, before it writes tables
    fjall::verif::arm("FlushBegin", 8, 0);
    let db3 = db.clone();
    let hw = std::thread::spawn(move || {
        fjall::verif::set_thread_tag(8);
        while let Ok(Some(_)) = db3.verif_step(0) {}
    });
    if fjall::verif::wait_parked("FlushBegin", 10_000).is_none() {
        fjall::verif::disarm_all();
        let _ = hw.join();
        return Err("flush worker did not reach the pause site".into());
    }
    // the writer draws its seqno and is parked after the first apply of its batch
    fjall::verif::arm("WApply", 7, 0);
    let (a2, b2, db2) = (a.clone(), b.clone(), db.clone());
    let h = std::thread::spawn(move || {
        fjall::verif::set_thread_tag(7);
        let mut batch = db2.batch();
        batch.insert(&a2, "k", "new");
        batch.insert(&b2, "k", "new");
        batch.commit().is_ok()
    });
    if fjall::verif::wait_parked("WApply", 10_000).is_none() {
        fjall::verif::disarm_all();
        let _ = h.join();
        let _ = hw.join();
        return Err("writer did not reach the pause site".into());
    }
    let batch_seqno = db.seqno() - 1;
    // the flush completes: version upgrade draws a seqno above the batch's and raises visible
    fjall::verif::release("FlushBegin", 8);
    let _ = hw.join();
    let snap = db.snapshot();
    let inst = snap.seqno();
    let s1 = snap.get(&a, "k").map_err(e)?.is_some();
    let s2 = snap.get(&b, "k").map_err(e)?.is_some();
    fjall::verif::release("WApply", 7);
    let ok = h.join().map_err(|_| "writer panicked")?;
    let l1 = snap.get(&a, "k").map_err(e)?.is_some();
    let l2 = snap.get(&b, "k").map_err(e)?.is_some();
    fjall::verif::disarm_all();
    fjall::verif::trace_stop();
    let _ = fjall::verif::trace_take();
    Ok(json!({"instant": inst, "batch_seqno": batch_seqno, "first_read": [s1, s2], "second_read": [l1, l2], "commit_ok": ok}))
}

/// A write transaction of either transactional database behind one set of calls.
enum MtTx<'a> {
    Opt(fjall::OptimisticWriteTx, &'a fjall::OptimisticTxKeyspace),
    Single(fjall::SingleWriterWriteTx<'a>, &'a fjall::SingleWriterTxKeyspace),
}

impl MtTx<'_> {
    fn ks(&self) -> &fjall::Keyspace {
        match self {
            MtTx::Opt(_, k) => k.inner(),
            MtTx::Single(_, k) => k.inner(),
        }
    }
    fn get(&self, key: Vec<u8>) -> u64 {
        let r = match self {
            MtTx::Opt(t, _) => t.get(self.ks(), key),
            MtTx::Single(t, _) => t.get(self.ks(), key),
        };
        r.ok().flatten().map_or(0, |b| unval(&b))
    }
    fn size_of(&self, key: Vec<u8>) -> Option<u32> {
        match self {
            MtTx::Opt(t, _) => t.size_of(self.ks(), key),
            MtTx::Single(t, _) => t.size_of(self.ks(), key),
        }
        .ok()
        .flatten()
    }
    fn iter(&self) -> fjall::Iter {
        match self {
            MtTx::Opt(t, _) => t.iter(self.ks()),
            MtTx::Single(t, _) => t.iter(self.ks()),
        }
    }
    fn range_to(&self, hi: Vec<u8>) -> fjall::Iter {
        match self {
            MtTx::Opt(t, _) => t.range::<Vec<u8>, _>(self.ks(), ..=hi),
            MtTx::Single(t, _) => t.range::<Vec<u8>, _>(self.ks(), ..=hi),
        }
    }
    fn insert(&mut self, key: Vec<u8>, v: Vec<u8>) {
        match self {
            MtTx::Opt(t, k) => t.insert(k.inner(), key, v),
            MtTx::Single(t, k) => t.insert(k, key, v),
        }
    }
    fn remove(&mut self, key: Vec<u8>) {
        match self {
            MtTx::Opt(t, k) => t.remove(k.inner(), key),
            MtTx::Single(t, k) => t.remove(k, key),
        }
    }
    fn fetch_update(&mut self, key: Vec<u8>, nv: Vec<u8>) -> u64 {
        let r = match self {
            MtTx::Opt(t, k) => t.fetch_update(k.inner(), key, |_| Some(nv.clone().into())),
            MtTx::Single(t, k) => t.fetch_update(k, key, |_| Some(nv.clone().into())),
        };
        r.ok().flatten().map_or(0, |b| unval(&b))
    }
    fn commit(self) -> bool {
        match self {
            MtTx::Opt(t, _) => matches!(t.commit(), Ok(Ok(()))),
            MtTx::Single(t, _) => t.commit().is_ok(),
        }
    }
}

/// The two transactional databases behind one handle (cloned into the threads).
#[derive(Clone)]
enum MtTxDb {
    Opt(fjall::OptimisticTxDatabase, fjall::OptimisticTxKeyspace),
    Single(fjall::SingleWriterTxDatabase, fjall::SingleWriterTxKeyspace),
}

impl MtTxDb {
    fn begin(&self) -> Option<MtTx<'_>> {
        match self {
            MtTxDb::Opt(db, ks) => db.write_tx().ok().map(|t| MtTx::Opt(t, ks)),
            MtTxDb::Single(db, ks) => Some(MtTx::Single(db.write_tx(), ks)),
        }
    }
    fn ks(&self) -> &fjall::Keyspace {
        match self {
            MtTxDb::Opt(_, k) => k.inner(),
            MtTxDb::Single(_, k) => k.inner(),
        }
    }
}

/// Concurrent transactions: every thread runs read-modify-write transactions over a small set
/// of cells (point reads, range scans, inserts, removes); what each transaction read and wrote
/// is logged before commit() for validation against Tx_Trace.  Optimistic database: retry on
/// Conflict.  Single-writer database (`args.single_writer`): transactions queue on the writer
/// mutex, every commit must succeed and must have read the state of its commit point (C08:
/// write transactions never overlap, no update is lost).
pub fn run_mt_tx(args: &MtArgs) -> Outcome {
    use fjall::{OptimisticTxDatabase, SingleWriterTxDatabase};
    let mut out = Outcome::default();
    let root = crate::util::scratch_root();
    let mut rng = rand::rngs::StdRng::seed_from_u64(args.seed);
    let trace_path = args.out_dir.join("mt_tx_trace.ndjson");
    let mut all: Vec<String> = vec![];
    let nkeys = 3u64;
    for run in 0..args.runs {
        let dir = fresh_dir(&root, &format!("mtx{run}"));
        let conc = Concretizer::new(1, 0, 0);
        let opts = || KeyspaceCreateOptions::default().max_memtable_size(3_000);
        let db = if args.single_writer {
            match SingleWriterTxDatabase::builder(&dir).worker_threads(args.workers.max(1)).open() {
                Ok(d) => {
                    let ks = d.keyspace("a", opts).unwrap();
                    MtTxDb::Single(d, ks)
                }
                Err(_) => continue,
            }
        } else {
            match OptimisticTxDatabase::builder(&dir).worker_threads(args.workers.max(1)).open() {
                Ok(d) => {
                    let ks = d.keyspace("a", opts).unwrap();
                    MtTxDb::Opt(d, ks)
                }
                Err(_) => continue,
            }
        };
        let _ = rng.gen_range(0..2);
        fjall::verif::trace_start();
        emit("Reset", &[]);
        let mut handles = vec![];
        for t in 0..args.threads {
            let db = db.clone();
            let conc = conc.clone();
            let seed = args.seed ^ (run << 10) ^ (t * 104729);
            let n = args.ops;
            handles.push(std::thread::spawn(move || {
                fjall::verif::set_thread_tag(t + 1);
                let mut rng = rand::rngs::StdRng::seed_from_u64(seed);
                let mut vctr = (t + 1) * 100_000;
                let mut commits = 0u64;
                let mut conflicts = 0u64;
                for _ in 0..n {
                    let mut tx = match db.begin() {
                        Some(t) => t,
                        None => break,
                    };
                    let mut reads: Vec<(u64, u64, u64)> = vec![];
                    let mut writes: Vec<(u64, u64, u64)> = vec![];
                    let k1 = rng.gen_range(1..=nkeys);
                    let k2 = rng.gen_range(1..=nkeys);
                    match rng.gen_range(0..4) {
                        0 => {
                            // point read + write another cell (write skew shape)
                            let v = tx.get(conc.key(k1));
                            reads.push((1, k1, v));
                            vctr += 1;
                            tx.insert(conc.key(k2), val(vctr));
                            writes.push((1, k2, vctr));
                        }
                        1 => {
                            // scan of everything, then write
                            let mut seen = vec![0u64; nkeys as usize];
                            for g in tx.iter() {
                                if let Ok((kb, v)) = g.into_inner() {
                                    if let Some(k) = (1..=nkeys).find(|x| conc.key(*x)[..] == kb[..]) {
                                        seen[k as usize - 1] = unval(&v);
                                    }
                                }
                            }
                            for k in 1..=nkeys {
                                reads.push((1, k, seen[k as usize - 1]));
                            }
                            vctr += 1;
                            tx.insert(conc.key(k1), val(vctr));
                            writes.push((1, k1, vctr));
                        }
                        2 => {
                            // read-modify-write through fetch_update, or size_of as the read
                            if rng.gen_range(0..2) == 0 {
                                vctr += 1;
                                let nv = val(vctr);
                                let prev = tx.fetch_update(conc.key(k1), nv);
                                reads.push((1, k1, prev));
                                writes.push((1, k1, vctr));
                            } else {
                                let sz = tx.size_of(conc.key(k1));
                                // the size identifies the value class only; log presence through get as well
                                let v = tx.get(conc.key(k1));
                                let _ = sz;
                                reads.push((1, k1, v));
                                tx.remove(conc.key(k2));
                                writes.push((1, k2, 0));
                            }
                        }
                        _ => {
                            // range read of keys <= k1, write k2
                            let hi = conc.key(k1);
                            let mut seen = vec![0u64; nkeys as usize];
                            for g in tx.range_to(hi) {
                                if let Ok((kb, v)) = g.into_inner() {
                                    if let Some(k) = (1..=nkeys).find(|x| conc.key(*x)[..] == kb[..]) {
                                        seen[k as usize - 1] = unval(&v);
                                    }
                                }
                            }
                            for k in 1..=k1 {
                                reads.push((1, k, seen[k as usize - 1]));
                            }
                            vctr += 1;
                            tx.insert(conc.key(k2), val(vctr));
                            writes.push((1, k2, vctr));
                        }
                    }
                    emit("TxIntent", &[("reads", F::Raw(items_json(&reads))), ("writes", F::Raw(items_json(&writes)))]);
                    let ok = tx.commit();
                    emit("TxResult", &[("ok", F::B(ok))]);
                    if ok { commits += 1 } else { conflicts += 1 }
                }
                (commits, conflicts)
            }));
        }
        let mut commits = 0;
        let mut conflicts = 0;
        for h in handles {
            if let Ok((a, b)) = h.join() {
                commits += a;
                conflicts += b;
            }
        }
        for k in 1..=nkeys {
            let g = db.ks().get(conc.key(k)).ok().flatten().map_or(0, |b| unval(&b));
            emit("Final", &[("c", F::Raw(format!("[1,{k}]"))), ("val", F::U(g))]);
        }
        fjall::verif::trace_stop();
        let ev = fjall::verif::trace_take();
        out.behaviours += 1;
        out.steps += ev.len() as u64;
        out.distinct.insert(hash_str(&format!("{run}-{}", ev.len())));
        if out.samples.len() < 2 {
            out.samples.push(json!({"threads": args.threads, "commits": commits, "conflicts": conflicts, "events": ev.len(),
                "excerpt": ev.iter().filter(|e| e.contains("TxIntent")).take(3).cloned().collect::<Vec<_>>()}));
        }
        all.extend(ev);
        if args.single_writer && conflicts > 0 {
            out.violations.push(json!({"first": format!("single-writer database: {conflicts} commits failed"), "replay": trace_path.to_string_lossy()}));
        }
        drop(db);
        let _ = std::fs::remove_dir_all(&dir);
    }
    std::fs::write(&trace_path, all.join("\n") + "\n").ok();
    out.notes.push(format!("trace={}", trace_path.to_string_lossy()));
    let _ = std::fs::remove_dir_all(&root);
    out
}


/// C14, "the write stall mechanisms always let writers proceed eventually": tight-loop writers on
/// their own keys against tiny memtables and few workers, so that the worker queue fills up with
/// rotation requests.  No trace is recorded; a watchdog reports writers that make no progress.
pub fn run_flood(out_dir: &std::path::Path, seed: u64, rounds: u64, secs: u64) -> Outcome {
    use std::sync::atomic::{AtomicBool, AtomicU64, Ordering};
    let mut out = Outcome::default();
    let root = crate::util::scratch_root();
    for round in 0..rounds {
        let dir = fresh_dir(&root, &format!("flood{round}"));
        let workers = std::env::var("FLOOD_WORKERS").ok().and_then(|x| x.parse().ok()).unwrap_or(if round % 3 == 2 { 1 } else { 2 });
        let writers = std::env::var("FLOOD_WRITERS").ok().and_then(|x| x.parse().ok()).unwrap_or(if round % 2 == 0 { 4 } else { 2 });
        let db = match Database::builder(&dir).worker_threads(workers).open() {
            Ok(d) => d,
            Err(e) => {
                out.notes.push(format!("open failed: {e:?}"));
                continue;
            }
        };
        let ks = db.keyspace("a", || KeyspaceCreateOptions::default().max_memtable_size(1_000)).unwrap();
        let stop = Arc::new(AtomicBool::new(false));
        let progress = Arc::new(AtomicU64::new(0));
        let mut handles = vec![];
        for t in 0..writers {
            let ks = ks.clone();
            let stop = stop.clone();
            let progress = progress.clone();
            handles.push(std::thread::spawn(move || {
                let mut n: u64 = 0;
                let key = format!("key-{t}");
                while !stop.load(Ordering::Relaxed) {
                    n += 1;
                    if ks.insert(key.as_bytes(), format!("{:08}-{}", n, seed).as_bytes()).is_err() {
                        break;
                    }
                    progress.fetch_add(1, Ordering::Relaxed);
                }
                n
            }));
        }
        // watchdog: progress must not stall for 5 s
        let start = std::time::Instant::now();
        let mut last = 0u64;
        let mut last_change = std::time::Instant::now();
        let mut stuck = false;
        while start.elapsed().as_secs() < secs {
            std::thread::sleep(std::time::Duration::from_millis(100));
            let p = progress.load(Ordering::Relaxed);
            if p != last {
                last = p;
                last_change = std::time::Instant::now();
            } else if last_change.elapsed().as_secs() >= 5 {
                stuck = true;
                break;
            }
        }
        stop.store(true, Ordering::Relaxed);
        if !stuck {
            // the writers must come back now
            let (tx, rx) = std::sync::mpsc::channel();
            let n = handles.len();
            for h in handles {
                let tx = tx.clone();
                std::thread::spawn(move || {
                    let _ = tx.send(h.join().unwrap_or(0));
                });
            }
            let mut written = vec![];
            for _ in 0..n {
                match rx.recv_timeout(std::time::Duration::from_secs(10)) {
                    Ok(x) => written.push(x),
                    Err(_) => {
                        stuck = true;
                        break;
                    }
                }
            }
            if !stuck {
                // nothing lost: every writer's key holds its last acknowledged value
                for t in 0..writers {
                    let got = ks.get(format!("key-{t}").as_bytes()).ok().flatten().map(|b| String::from_utf8_lossy(&b).to_string());
                    let ok = got.as_ref().map_or(false, |g| written.iter().any(|n| *g == format!("{:08}-{}", n, seed) || *g == format!("{:08}-{}", n.saturating_sub(1), seed)));
                    if !ok {
                        out.violations.push(json!({"replay": out_dir.join("flood.json").to_string_lossy(), "step": round,
                            "first": format!("flood round {round}: key-{t} reads {got:?}, not the last value a writer was acknowledged")}));
                    }
                }
            }
        }
        out.behaviours += 1;
        out.steps += progress.load(Ordering::Relaxed);
        out.distinct.insert(hash_str(&format!("flood{round}")));
        if out.samples.is_empty() {
            out.samples.push(json!({"round": round, "workers": workers, "writers": writers, "writes": progress.load(Ordering::Relaxed),
                "sealed": ks.sealed_memtable_count(), "tables": ks.table_count()}));
        }
        if stuck {
            let rp = out_dir.join("flood.json");
            let _ = std::fs::write(&rp, serde_json::to_string_pretty(&json!({"kind": "flood", "round": round, "workers": workers, "writers": writers,
                "writes_before_stall": progress.load(Ordering::Relaxed), "sealed_memtables": ks.sealed_memtable_count()})).unwrap());
            out.violations.push(json!({"replay": rp.to_string_lossy(), "step": round,
                "first": format!("flood round {round} ({writers} writers, {workers} workers, memtable 1000 bytes): no write returned for 5 s after {} writes - writers are blocked for ever", progress.load(Ordering::Relaxed))}));
            std::mem::forget(ks);
            std::mem::forget(db);
            return out;
        }
        drop(ks);
        let (tx, rx) = std::sync::mpsc::channel();
        std::thread::spawn(move || {
            drop(db);
            let _ = tx.send(());
        });
        if rx.recv_timeout(std::time::Duration::from_secs(30)).is_err() {
            out.violations.push(json!({"replay": out_dir.join("flood.json").to_string_lossy(), "step": round, "first": "dropping the database after the flood did not return within 30 s"}));
            return out;
        }
        let _ = std::fs::remove_dir_all(&dir);
    }
    let _ = std::fs::remove_dir_all(&root);
    out
}


/// C14, write stall with SEVERAL keyspaces: phase 1 floods the worker queue (many writers, tiny
/// memtables, 4 keyspaces), phase 2 writes to a keyspace that was idle during the flood.  Flush
/// announcements that got lost in phase 1 leave flush tasks of other keyspaces at the head of the
/// flush queue; the writers of phase 2 then reach 4 sealed memtables and must still proceed.
pub fn run_flood_multi(out_dir: &std::path::Path, seed: u64, rounds: u64, secs: u64) -> Outcome {
    use std::sync::atomic::{AtomicBool, AtomicU64, Ordering};
    let mut out = Outcome::default();
    let root = crate::util::scratch_root();
    for round in 0..rounds {
        let dir = fresh_dir(&root, &format!("floodm{round}"));
        let workers = if round % 2 == 0 { 4 } else { 2 };
        let db = match Database::builder(&dir).worker_threads(workers).open() {
            Ok(d) => d,
            Err(e) => {
                out.notes.push(format!("open failed: {e:?}"));
                continue;
            }
        };
        let mk = |n: &str| db.keyspace(n, || KeyspaceCreateOptions::default().max_memtable_size(8_000)).unwrap();
        let busy: Vec<fjall::Keyspace> = ["a", "b", "c", "d"].iter().map(|n| mk(n)).collect();
        let idle = mk("idle");
        let mut stuck: Option<String> = None;
        let mut total = 0u64;
        for (phase, (kss, writers, dur)) in [(busy.clone(), 12usize, secs), (vec![idle.clone()], 2usize, 3u64)].into_iter().enumerate() {
            let stop = Arc::new(AtomicBool::new(false));
            let progress = Arc::new(AtomicU64::new(0));
            let mut handles = vec![];
            for t in 0..writers {
                let ks = kss[t % kss.len()].clone();
                let stop = stop.clone();
                let progress = progress.clone();
                handles.push(std::thread::spawn(move || {
                    let mut n: u64 = 0;
                    while !stop.load(Ordering::Relaxed) {
                        n += 1;
                        let key = format!("key-{t}-{}", n % 64);
                        if ks.insert(key.as_bytes(), format!("{:08}-{}-{}", n, seed, "x".repeat(64)).as_bytes()).is_err() {
                            break;
                        }
                        progress.fetch_add(1, Ordering::Relaxed);
                    }
                }));
            }
            let start = std::time::Instant::now();
            let mut last = 0u64;
            let mut last_change = std::time::Instant::now();
            while start.elapsed().as_secs() < dur {
                std::thread::sleep(std::time::Duration::from_millis(100));
                let p = progress.load(Ordering::Relaxed);
                if p != last {
                    last = p;
                    last_change = std::time::Instant::now();
                } else if last_change.elapsed().as_secs() >= 6 {
                    stuck = Some(format!("phase {} ({} writers on {} keyspace(s), {workers} workers, memtable 8000 bytes): no write returned for 6 s after {} writes; sealed memtables per keyspace: {:?} / idle {}",
                        phase + 1, writers, kss.len(), p, busy.iter().map(|k| k.sealed_memtable_count()).collect::<Vec<_>>(), idle.sealed_memtable_count()));
                    break;
                }
            }
            stop.store(true, Ordering::Relaxed);
            total += progress.load(Ordering::Relaxed);
            if stuck.is_some() {
                break;
            }
            // the writers come back
            let (tx, rx) = std::sync::mpsc::channel();
            let n = handles.len();
            for h in handles {
                let tx = tx.clone();
                std::thread::spawn(move || {
                    let _ = h.join();
                    let _ = tx.send(());
                });
            }
            for _ in 0..n {
                if rx.recv_timeout(std::time::Duration::from_secs(15)).is_err() {
                    stuck = Some(format!("phase {}: a writer did not return within 15 s after the stop signal; sealed memtables per keyspace: {:?} / idle {}",
                        phase + 1, busy.iter().map(|k| k.sealed_memtable_count()).collect::<Vec<_>>(), idle.sealed_memtable_count()));
                    break;
                }
            }
            if stuck.is_some() {
                break;
            }
        }
        out.behaviours += 1;
        out.steps += total;
        out.distinct.insert(hash_str(&format!("floodm{round}")));
        if let Some(why) = stuck {
            let rp = out_dir.join("flood_multi.json");
            let _ = std::fs::write(&rp, serde_json::to_string_pretty(&json!({"kind": "flood-multi", "round": round, "workers": workers, "why": why})).unwrap());
            out.violations.push(json!({"replay": rp.to_string_lossy(), "step": round, "first": format!("flood (several keyspaces) round {round}: {why}")}));
            std::mem::forget(busy);
            std::mem::forget(idle);
            std::mem::forget(db);
            return out;
        }
        drop(busy);
        drop(idle);
        let (tx, rx) = std::sync::mpsc::channel();
        std::thread::spawn(move || {
            drop(db);
            let _ = tx.send(());
        });
        if rx.recv_timeout(std::time::Duration::from_secs(30)).is_err() {
            out.violations.push(json!({"replay": out_dir.join("flood_multi.json").to_string_lossy(), "step": round, "first": "dropping the database after the flood did not return within 30 s"}));
            return out;
        }
        let _ = std::fs::remove_dir_all(&dir);
    }
    let _ = std::fs::remove_dir_all(&root);
    out
}


/// Forced schedule for the write stall (TLC counterexample of `NoStalledForEver` in WorkerQueue2):
/// every worker is parked right after it sealed a memtable of keyspace "k" and before it
/// announces the flush task; meanwhile writers of another keyspace fill the worker queue with
/// rotation requests.  Released, every worker blocks in `send(Flush)` into the full queue; "k"
/// has 4 sealed memtables, so its writers sit in `local_backpressure` - for how long?
pub fn forced_stall(dir: &std::path::Path, workers: usize, wait_secs: u64) -> Result<serde_json::Value, String> {
    use std::sync::atomic::{AtomicBool, AtomicU64, Ordering};
    let e = |x: fjall::Error| format!("{x:?}");
    let db = Database::builder(dir).worker_threads(workers).open().map_err(e)?;
    let k = db.keyspace("k", || KeyspaceCreateOptions::default().max_memtable_size(1_000)).map_err(e)?;
    let j = db.keyspace("j", || KeyspaceCreateOptions::default().max_memtable_size(1_000)).map_err(e)?;
    fjall::verif::disarm_all();
    let big = vec![b'x'; 2_000];
    let mut parked = 0u64;
    // one rotation per worker: each seals a memtable of k and parks before send(Flush)
    for i in 0..4u64 {
        if (i as usize) < workers {
            fjall::verif::arm("RotSendFlush", 0, 0);
        }
        k.insert(format!("key{i}"), &big).map_err(e)?;
        let t0 = std::time::Instant::now();
        while (k.sealed_memtable_count() as u64) < i + 1 {
            if t0.elapsed().as_secs() > 10 {
                fjall::verif::disarm_all();
                return Err(format!("rotation {i} did not happen (sealed = {})", k.sealed_memtable_count()));
            }
            std::thread::sleep(std::time::Duration::from_millis(5));
        }
        if (i as usize) < workers {
            if fjall::verif::wait_parked("RotSendFlush", 10_000).is_none() {
                fjall::verif::disarm_all();
                return Err("worker did not reach the pause site".into());
            }
            parked += 1;
        }
    }
    if k.sealed_memtable_count() < 4 {
        fjall::verif::disarm_all();
        return Err(format!("only {} sealed memtables", k.sealed_memtable_count()));
    }
    // a writer of k: its insert is applied, then it waits in local_backpressure
    let done = Arc::new(AtomicBool::new(false));
    let (k2, done2, big2) = (k.clone(), done.clone(), big.clone());
    let hk = std::thread::spawn(move || {
        let r = k2.insert("late", &big2).is_ok();
        done2.store(true, Ordering::SeqCst);
        r
    });
    // writers of j fill the worker queue with rotation requests (nobody receives: every worker is parked)
    let mut j_writes = 0u64;
    for n in 0..1_100u64 {
        j.insert(format!("j{n}"), &big).map_err(e)?;
        j_writes += 1;
    }
    // the workers go on: blocking send(Flush) into the full queue
    for _ in 0..parked {
        fjall::verif::release("RotSendFlush", 0);
    }
    let progress = Arc::new(AtomicU64::new(0));
    let t0 = std::time::Instant::now();
    while t0.elapsed().as_secs() < wait_secs && !done.load(Ordering::SeqCst) {
        // the database is alive: writes to j are acknowledged all the time
        j.insert(format!("alive{}", progress.fetch_add(1, Ordering::Relaxed)), b"v").map_err(e)?;
        std::thread::sleep(std::time::Duration::from_millis(20));
    }
    let stalled = !done.load(Ordering::SeqCst);
    let out = json!({"workers": workers, "workers_parked_then_released": parked, "writes_to_j_while_parked": j_writes,
        "sealed_memtables_of_k": k.sealed_memtable_count(), "tables_of_k": k.table_count(),
        "writer_of_k_returned_within_secs": if stalled { serde_json::Value::Null } else { json!(t0.elapsed().as_secs_f64()) },
        "waited_secs": wait_secs, "writes_to_j_acknowledged_meanwhile": progress.load(Ordering::Relaxed), "stalled": stalled});
    fjall::verif::disarm_all();
    if stalled {
        // leak everything: the writer thread never comes back
        std::mem::forget(hk);
        std::mem::forget(k);
        std::mem::forget(j);
        std::mem::forget(db);
    } else {
        let _ = hk.join();
    }
    Ok(out)
}
