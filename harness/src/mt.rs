//! Multi-threaded drivers: real worker threads, tiny memtables, several client threads writing,
//! reading (plain and through snapshots) through cloned handles.  The hooks in the writers'
//! critical sections and the harness's call/return events form one globally ordered trace that
//! is validated against FjallMVCC (MVCC_Trace).  Forced schedules (pause sites) realise the
//! interleavings TLC reports as counterexamples deterministically.

use crate::store::Variant;
use crate::util::{fresh_dir, hash_str, Concretizer, Outcome};
use fjall::verif::{emit, F};
use fjall::{Database, KeyspaceCreateOptions, Readable};
use rand::{Rng, SeedableRng};
use serde_json::json;
use std::path::PathBuf;
use std::sync::Arc;

pub struct MtArgs {
    pub out_dir: PathBuf,
    pub seed: u64,
    pub runs: u64,
    pub threads: u64,
    pub ops: u64,
    pub workers: usize,
    pub snapshots: bool,
}

fn items_json(items: &[(u64, u64, u64)]) -> String {
    let v: Vec<String> = items.iter().map(|(ks, k, v)| format!("[{ks},{k},{v}]")).collect();
    format!("[{}]", v.join(","))
}

/// value encoding for the MT driver: model value n -> bytes (length varies so that memtables
/// rotate often)
fn val(n: u64) -> Vec<u8> {
    let mut b = format!("m{n:07}").into_bytes();
    b.resize(8 + (n % 7) as usize * 60, b'.');
    b
}
fn unval(b: &[u8]) -> u64 {
    if b.len() >= 8 && b[0] == b'm' {
        std::str::from_utf8(&b[1..8]).ok().and_then(|s| s.parse().ok()).unwrap_or(u64::MAX)
    } else {
        u64::MAX
    }
}

pub fn run_mt(args: &MtArgs) -> Outcome {
    let mut out = Outcome::default();
    let root = crate::util::scratch_root();
    let mut rng = rand::rngs::StdRng::seed_from_u64(args.seed);
    let trace_path = args.out_dir.join("mt_trace.ndjson");
    let mut all: Vec<String> = vec![];
    let nkeys = 4u64;
    for run in 0..args.runs {
        let dir = fresh_dir(&root, &format!("mt{run}"));
        let variant = Variant::from_index(rng.gen_range(0..16), &[]);
        let conc = Concretizer::new(1, 0, 0);
        let db = match Database::builder(&dir).worker_threads(args.workers.max(1)).open() {
            Ok(d) => d,
            Err(_) => continue,
        };
        let mk = |name: &str| {
            db.keyspace(name, || {
                let mut o = KeyspaceCreateOptions::default().max_memtable_size(2_000);
                if variant.kv_sep {
                    o = o.with_kv_separation(Some(fjall::KvSeparationOptions::default().separation_threshold(100)));
                }
                o
            })
            .unwrap()
        };
        let kss = Arc::new(vec![mk("a"), mk("b")]);
        fjall::verif::trace_start();
        emit("Reset", &[("seqno", F::U(db.seqno())), ("vis", F::U(db.visible_seqno()))]);
        let watchdog = std::time::Instant::now();
        let mut handles = vec![];
        for t in 0..args.threads {
            let db = db.clone();
            let kss = kss.clone();
            let conc = conc.clone();
            let seed = args.seed ^ (run << 10) ^ (t * 7919);
            let n = args.ops;
            let snaps = args.snapshots;
            handles.push(std::thread::spawn(move || {
                fjall::verif::set_thread_tag(t + 1);
                let mut rng = rand::rngs::StdRng::seed_from_u64(seed);
                let mut vctr = (t + 1) * 100_000;
                let mut vid_ctr = (t + 1) * 1000;
                for _ in 0..n {
                    let ks = rng.gen_range(0..2usize);
                    let k = rng.gen_range(1..=nkeys);
                    let key = conc.key(k);
                    match rng.gen_range(0..100) {
                        0..=34 => {
                            vctr += 1;
                            emit("CallW", &[("items", F::Raw(items_json(&[(ks as u64 + 1, k, vctr)])))]);
                            let r = kss[ks].insert(key, val(vctr));
                            emit("RetW", &[("ok", F::B(r.is_ok()))]);
                        }
                        35..=44 => {
                            emit("CallW", &[("items", F::Raw(items_json(&[(ks as u64 + 1, k, 0)])))]);
                            let r = kss[ks].remove(key);
                            emit("RetW", &[("ok", F::B(r.is_ok()))]);
                        }
                        45..=59 => {
                            // batch over both keyspaces, 2-4 items (distinct cells)
                            let mut items: Vec<(u64, u64, u64)> = vec![];
                            let cnt = rng.gen_range(2..=4);
                            let mut b = db.batch();
                            for i in 0..cnt {
                                let ksi = (ks + i) % 2;
                                let kk = 1 + (k + i as u64 / 2) % nkeys;
                                if items.iter().any(|(a, b2, _)| *a == ksi as u64 + 1 && *b2 == kk) {
                                    continue;
                                }
                                vctr += 1;
                                if rng.gen_range(0..5) == 0 {
                                    b.remove(&kss[ksi], conc.key(kk));
                                    items.push((ksi as u64 + 1, kk, 0));
                                } else {
                                    b.insert(&kss[ksi], conc.key(kk), val(vctr));
                                    items.push((ksi as u64 + 1, kk, vctr));
                                }
                            }
                            emit("CallW", &[("items", F::Raw(items_json(&items)))]);
                            let r = b.commit();
                            emit("RetW", &[("ok", F::B(r.is_ok()))]);
                        }
                        60..=61 => {
                            emit("CallW", &[("items", F::Raw(items_json(&[(ks as u64 + 1, 0, 0)])))]);
                            let r = kss[ks].clear();
                            emit("RetW", &[("ok", F::B(r.is_ok()))]);
                        }
                        62..=84 => {
                            emit("CallR", &[("c", F::Raw(format!("[{},{}]", ks + 1, k)))]);
                            let r = kss[ks].get(&key).ok().flatten().map_or(0, |b| unval(&b));
                            emit("RetR", &[("val", F::U(r))]);
                        }
                        _ => {
                            if !snaps {
                                continue;
                            }
                            vid_ctr += 1;
                            emit("SCall", &[]);
                            let s = db.snapshot();
                            emit("SOpen", &[("vid", F::U(vid_ctr)), ("inst", F::U(s.seqno()))]);
                            for _ in 0..rng.gen_range(1..4) {
                                let ks2 = rng.gen_range(0..2usize);
                                let k2 = rng.gen_range(1..=nkeys);
                                let r = s.get(&kss[ks2], conc.key(k2)).ok().flatten().map_or(0, |b| unval(&b));
                                emit("SRead", &[("vid", F::U(vid_ctr)), ("c", F::Raw(format!("[{},{}]", ks2 + 1, k2))), ("val", F::U(r))]);
                                // scans must agree with point reads inside the snapshot
                                if let Some(g) = s.range::<Vec<u8>, _>(&kss[ks2], conc.key(k2)..=conc.key(k2)).next() {
                                    let v = g.value().ok().map_or(0, |b| unval(&b));
                                    emit("SRead", &[("vid", F::U(vid_ctr)), ("c", F::Raw(format!("[{},{}]", ks2 + 1, k2))), ("val", F::U(v))]);
                                } else {
                                    emit("SRead", &[("vid", F::U(vid_ctr)), ("c", F::Raw(format!("[{},{}]", ks2 + 1, k2))), ("val", F::U(0))]);
                                }
                                std::thread::yield_now();
                            }
                            emit("SClose", &[("vid", F::U(vid_ctr))]);
                            drop(s);
                        }
                    }
                }
            }));
        }
        let mut panicked = 0;
        // liveness (C14: writers always proceed eventually): the client threads of a run finish
        // within seconds; a thread that is still running after the watchdog period is stuck
        // (write stall that never ends, journal mutex never released, ...)
        let (jtx, jrx) = std::sync::mpsc::channel();
        let n_threads = handles.len();
        for h in handles {
            let jtx = jtx.clone();
            std::thread::spawn(move || {
                let _ = jtx.send(h.join().is_err());
            });
        }
        let deadline = std::time::Instant::now() + std::time::Duration::from_secs(90);
        let mut finished = 0;
        while finished < n_threads {
            let left = deadline.saturating_duration_since(std::time::Instant::now());
            match jrx.recv_timeout(left) {
                Ok(p) => {
                    finished += 1;
                    if p {
                        panicked += 1;
                    }
                }
                Err(_) => break,
            }
        }
        if finished < n_threads {
            fjall::verif::trace_stop();
            let ev = fjall::verif::trace_take();
            all.extend(ev);
            std::fs::write(&trace_path, all.join("\n") + "\n").ok();
            out.behaviours += 1;
            out.violations.push(json!({"replay": trace_path.to_string_lossy(), "step": run,
                "first": format!("{} of {n_threads} client threads did not finish within 90 s in run {run} (writers blocked for ever; sealed memtables a = {}, b = {})",
                    n_threads - finished, kss[0].sealed_memtable_count(), kss[1].sealed_memtable_count())}));
            // the stuck threads own handles of the database: leave everything behind
            std::mem::forget(kss);
            std::mem::forget(db);
            return out;
        }
        // final content: get and iter of every cell
        for (i, ks) in kss.iter().enumerate() {
            for k in 1..=nkeys {
                let g = ks.get(conc.key(k)).ok().flatten().map_or(0, |b| unval(&b));
                emit("Final", &[("c", F::Raw(format!("[{},{}]", i + 1, k))), ("val", F::U(g))]);
            }
            for g in ks.iter() {
                if let Ok((kb, v)) = g.into_inner() {
                    if let Some(k) = (1..=nkeys).find(|x| conc.key(*x)[..] == kb[..]) {
                        emit("Final", &[("c", F::Raw(format!("[{},{}]", i + 1, k))), ("val", F::U(unval(&v)))]);
                    }
                }
            }
        }
        fjall::verif::trace_stop();
        let ev = fjall::verif::trace_take();
        out.behaviours += 1;
        out.steps += ev.len() as u64;
        out.distinct.insert(hash_str(&format!("{run}-{}", ev.len())));
        if panicked > 0 {
            out.violations.push(json!({"replay": trace_path.to_string_lossy(), "step": run, "first": format!("{panicked} client thread(s) panicked in run {run}")}));
        }
        if watchdog.elapsed().as_secs() > 120 {
            out.notes.push(format!("run {run} took {}s", watchdog.elapsed().as_secs()));
        }
        if out.samples.len() < 2 {
            out.samples.push(json!({"threads": args.threads, "workers": args.workers, "events": ev.len(),
                "sealed_a": kss[0].sealed_memtable_count(), "tables_a": kss[0].table_count(),
                "excerpt": ev.iter().skip(1).take(8).cloned().collect::<Vec<_>>()}));
        }
        all.extend(ev);
        drop(kss);
        // drop with a watchdog: background threads must stop
        let (tx, rx) = std::sync::mpsc::channel();
        std::thread::spawn(move || {
            drop(db);
            let _ = tx.send(());
        });
        if rx.recv_timeout(std::time::Duration::from_secs(30)).is_err() {
            out.violations.push(json!({"replay": trace_path.to_string_lossy(), "step": run, "first": "dropping the database did not return within 30 s"}));
        }
        let _ = std::fs::remove_dir_all(&dir);
    }
    std::fs::write(&trace_path, all.join("\n") + "\n").ok();
    out.notes.push(format!("trace={}", trace_path.to_string_lossy()));
    let _ = std::fs::remove_dir_all(&root);
    out
}

/// Forced schedule for D7 / C06: a writer is parked between the two applies of a batch over
/// two keyspaces while another keyspace is flushed (version upgrade raises the visible seqno);
/// a snapshot opened then reads both keys of the batch.  Returns (instant, batch seqno, seen k1,
/// seen k2, later k1, later k2).
pub fn forced_torn_batch(dir: &std::path::Path) -> Result<serde_json::Value, String> {
    let e = |x: fjall::Error| format!("{x:?}");
    let db = Database::builder(dir).worker_threads_unchecked(0).open().map_err(e)?;
    let a = db.keyspace("a", KeyspaceCreateOptions::default).map_err(e)?;
    let b = db.keyspace("b", KeyspaceCreateOptions::default).map_err(e)?;
    let z = db.keyspace("z", KeyspaceCreateOptions::default).map_err(e)?;
    z.insert("x", "x").map_err(e)?;
    z.rotate_memtable().map_err(e)?; // a flush task for z is queued
    fjall::verif::disarm_all();
    fjall::verif::trace_start();
    // the flush worker is parked after it released the journal mutex, before it writes tables
    fjall::verif::arm("FlushBegin", 8, 0);
    let db3 = db.clone();
    let hw = std::thread::spawn(move || {
        fjall::verif::set_thread_tag(8);
        while let Ok(Some(_)) = db3.verif_step(0) {}
    });
    if fjall::verif::wait_parked("FlushBegin", 10_000).is_none() {
        fjall::verif::disarm_all();
        let _ = hw.join();
        return Err("flush worker did not reach the pause site".into());
    }
    // the writer draws its seqno and is parked after the first apply of its batch
    fjall::verif::arm("WApply", 7, 0);
    let (a2, b2, db2) = (a.clone(), b.clone(), db.clone());
    let h = std::thread::spawn(move || {
        fjall::verif::set_thread_tag(7);
        let mut batch = db2.batch();
        batch.insert(&a2, "k", "new");
        batch.insert(&b2, "k", "new");
        batch.commit().is_ok()
    });
    if fjall::verif::wait_parked("WApply", 10_000).is_none() {
        fjall::verif::disarm_all();
        let _ = h.join();
        let _ = hw.join();
        return Err("writer did not reach the pause site".into());
    }
    let batch_seqno = db.seqno() - 1;
    // the flush completes: version upgrade draws a seqno above the batch's and raises visible
    fjall::verif::release("FlushBegin", 8);
    let _ = hw.join();
    let snap = db.snapshot();
    let inst = snap.seqno();
    let s1 = snap.get(&a, "k").map_err(e)?.is_some();
    let s2 = snap.get(&b, "k").map_err(e)?.is_some();
    fjall::verif::release("WApply", 7);
    let ok = h.join().map_err(|_| "writer panicked")?;
    let l1 = snap.get(&a, "k").map_err(e)?.is_some();
    let l2 = snap.get(&b, "k").map_err(e)?.is_some();
    fjall::verif::disarm_all();
    fjall::verif::trace_stop();
    let _ = fjall::verif::trace_take();
    Ok(json!({"instant": inst, "batch_seqno": batch_seqno, "first_read": [s1, s2], "second_read": [l1, l2], "commit_ok": ok}))
}

/// Concurrent optimistic transactions: every thread runs read-modify-write transactions over a
/// small set of cells (point reads, range scans, inserts, removes) with retry on Conflict; what
/// each transaction read and wrote is logged before commit() for validation against Tx_Trace.
pub fn run_mt_tx(args: &MtArgs) -> Outcome {
    use fjall::OptimisticTxDatabase;
    let mut out = Outcome::default();
    let root = crate::util::scratch_root();
    let mut rng = rand::rngs::StdRng::seed_from_u64(args.seed);
    let trace_path = args.out_dir.join("mt_tx_trace.ndjson");
    let mut all: Vec<String> = vec![];
    let nkeys = 3u64;
    for run in 0..args.runs {
        let dir = fresh_dir(&root, &format!("mtx{run}"));
        let conc = Concretizer::new(1, 0, 0);
        let db = match OptimisticTxDatabase::builder(&dir).worker_threads(args.workers.max(1)).open() {
            Ok(d) => d,
            Err(_) => continue,
        };
        let ks = db.keyspace("a", || KeyspaceCreateOptions::default().max_memtable_size(3_000)).unwrap();
        let _ = rng.gen_range(0..2);
        fjall::verif::trace_start();
        emit("Reset", &[]);
        let mut handles = vec![];
        for t in 0..args.threads {
            let db = db.clone();
            let ks = ks.clone();
            let conc = conc.clone();
            let seed = args.seed ^ (run << 10) ^ (t * 104729);
            let n = args.ops;
            handles.push(std::thread::spawn(move || {
                fjall::verif::set_thread_tag(t + 1);
                let mut rng = rand::rngs::StdRng::seed_from_u64(seed);
                let mut vctr = (t + 1) * 100_000;
                let mut commits = 0u64;
                let mut conflicts = 0u64;
                for _ in 0..n {
                    let mut tx = match db.write_tx() {
                        Ok(t) => t,
                        Err(_) => break,
                    };
                    let mut reads: Vec<(u64, u64, u64)> = vec![];
                    let mut writes: Vec<(u64, u64, u64)> = vec![];
                    let k1 = rng.gen_range(1..=nkeys);
                    let k2 = rng.gen_range(1..=nkeys);
                    match rng.gen_range(0..4) {
                        0 => {
                            // point read + write another cell (write skew shape)
                            let v = tx.get(ks.inner(), conc.key(k1)).ok().flatten().map_or(0, |b| unval(&b));
                            reads.push((1, k1, v));
                            vctr += 1;
                            tx.insert(ks.inner(), conc.key(k2), val(vctr));
                            writes.push((1, k2, vctr));
                        }
                        1 => {
                            // scan of everything, then write
                            let mut seen = vec![0u64; nkeys as usize];
                            for g in tx.iter(ks.inner()) {
                                if let Ok((kb, v)) = g.into_inner() {
                                    if let Some(k) = (1..=nkeys).find(|x| conc.key(*x)[..] == kb[..]) {
                                        seen[k as usize - 1] = unval(&v);
                                    }
                                }
                            }
                            for k in 1..=nkeys {
                                reads.push((1, k, seen[k as usize - 1]));
                            }
                            vctr += 1;
                            tx.insert(ks.inner(), conc.key(k1), val(vctr));
                            writes.push((1, k1, vctr));
                        }
                        2 => {
                            // read-modify-write through fetch_update, or size_of as the read
                            if rng.gen_range(0..2) == 0 {
                                vctr += 1;
                                let nv = val(vctr);
                                let prev = tx.fetch_update(ks.inner(), conc.key(k1), |_| Some(nv.clone().into())).ok().flatten().map_or(0, |b| unval(&b));
                                reads.push((1, k1, prev));
                                writes.push((1, k1, vctr));
                            } else {
                                let sz = tx.size_of(ks.inner(), conc.key(k1)).ok().flatten();
                                // the size identifies the value class only; log presence through get as well
                                let v = tx.get(ks.inner(), conc.key(k1)).ok().flatten().map_or(0, |b| unval(&b));
                                let _ = sz;
                                reads.push((1, k1, v));
                                tx.remove(ks.inner(), conc.key(k2));
                                writes.push((1, k2, 0));
                            }
                        }
                        _ => {
                            // range read of keys <= k1, write k2
                            let hi = conc.key(k1);
                            let mut seen = vec![0u64; nkeys as usize];
                            for g in tx.range::<Vec<u8>, _>(ks.inner(), ..=hi) {
                                if let Ok((kb, v)) = g.into_inner() {
                                    if let Some(k) = (1..=nkeys).find(|x| conc.key(*x)[..] == kb[..]) {
                                        seen[k as usize - 1] = unval(&v);
                                    }
                                }
                            }
                            for k in 1..=k1 {
                                reads.push((1, k, seen[k as usize - 1]));
                            }
                            vctr += 1;
                            tx.insert(ks.inner(), conc.key(k2), val(vctr));
                            writes.push((1, k2, vctr));
                        }
                    }
                    emit("TxIntent", &[("reads", F::Raw(items_json(&reads))), ("writes", F::Raw(items_json(&writes)))]);
                    let ok = matches!(tx.commit(), Ok(Ok(())));
                    emit("TxResult", &[("ok", F::B(ok))]);
                    if ok { commits += 1 } else { conflicts += 1 }
                }
                (commits, conflicts)
            }));
        }
        let mut commits = 0;
        let mut conflicts = 0;
        for h in handles {
            if let Ok((a, b)) = h.join() {
                commits += a;
                conflicts += b;
            }
        }
        for k in 1..=nkeys {
            let g = ks.get(conc.key(k)).ok().flatten().map_or(0, |b| unval(&b));
            emit("Final", &[("c", F::Raw(format!("[1,{k}]"))), ("val", F::U(g))]);
        }
        fjall::verif::trace_stop();
        let ev = fjall::verif::trace_take();
        out.behaviours += 1;
        out.steps += ev.len() as u64;
        out.distinct.insert(hash_str(&format!("{run}-{}", ev.len())));
        if out.samples.len() < 2 {
            out.samples.push(json!({"threads": args.threads, "commits": commits, "conflicts": conflicts, "events": ev.len(),
                "excerpt": ev.iter().filter(|e| e.contains("TxIntent")).take(3).cloned().collect::<Vec<_>>()}));
        }
        all.extend(ev);
        drop(ks);
        drop(db);
        let _ = std::fs::remove_dir_all(&dir);
    }
    std::fs::write(&trace_path, all.join("\n") + "\n").ok();
    out.notes.push(format!("trace={}", trace_path.to_string_lossy()));
    let _ = std::fs::remove_dir_all(&root);
    out
}


/// C14, "the write stall mechanisms always let writers proceed eventually": tight-loop writers on
/// their own keys against tiny memtables and few workers, so that the worker queue fills up with
/// rotation requests.  No trace is recorded; a watchdog reports writers that make no progress.
pub fn run_flood(out_dir: &std::path::Path, seed: u64, rounds: u64, secs: u64) -> Outcome {
    use std::sync::atomic::{AtomicBool, AtomicU64, Ordering};
    let mut out = Outcome::default();
    let root = crate::util::scratch_root();
    for round in 0..rounds {
        let dir = fresh_dir(&root, &format!("flood{round}"));
        let workers = if round % 3 == 2 { 1 } else { 2 };
        let writers = if round % 2 == 0 { 4 } else { 2 };
        let db = match Database::builder(&dir).worker_threads(workers).open() {
            Ok(d) => d,
            Err(e) => {
                out.notes.push(format!("open failed: {e:?}"));
                continue;
            }
        };
        let ks = db.keyspace("a", || KeyspaceCreateOptions::default().max_memtable_size(1_000)).unwrap();
        let stop = Arc::new(AtomicBool::new(false));
        let progress = Arc::new(AtomicU64::new(0));
        let mut handles = vec![];
        for t in 0..writers {
            let ks = ks.clone();
            let stop = stop.clone();
            let progress = progress.clone();
            handles.push(std::thread::spawn(move || {
                let mut n: u64 = 0;
                let key = format!("key-{t}");
                while !stop.load(Ordering::Relaxed) {
                    n += 1;
                    if ks.insert(key.as_bytes(), format!("{:08}-{}", n, seed).as_bytes()).is_err() {
                        break;
                    }
                    progress.fetch_add(1, Ordering::Relaxed);
                }
                n
            }));
        }
        // watchdog: progress must not stall for 5 s
        let start = std::time::Instant::now();
        let mut last = 0u64;
        let mut last_change = std::time::Instant::now();
        let mut stuck = false;
        while start.elapsed().as_secs() < secs {
            std::thread::sleep(std::time::Duration::from_millis(100));
            let p = progress.load(Ordering::Relaxed);
            if p != last {
                last = p;
                last_change = std::time::Instant::now();
            } else if last_change.elapsed().as_secs() >= 5 {
                stuck = true;
                break;
            }
        }
        stop.store(true, Ordering::Relaxed);
        if !stuck {
            // the writers must come back now
            let (tx, rx) = std::sync::mpsc::channel();
            let n = handles.len();
            for h in handles {
                let tx = tx.clone();
                std::thread::spawn(move || {
                    let _ = tx.send(h.join().unwrap_or(0));
                });
            }
            let mut written = vec![];
            for _ in 0..n {
                match rx.recv_timeout(std::time::Duration::from_secs(10)) {
                    Ok(x) => written.push(x),
                    Err(_) => {
                        stuck = true;
                        break;
                    }
                }
            }
            if !stuck {
                // nothing lost: every writer's key holds its last acknowledged value
                for t in 0..writers {
                    let got = ks.get(format!("key-{t}").as_bytes()).ok().flatten().map(|b| String::from_utf8_lossy(&b).to_string());
                    let ok = got.as_ref().map_or(false, |g| written.iter().any(|n| *g == format!("{:08}-{}", n, seed) || *g == format!("{:08}-{}", n.saturating_sub(1), seed)));
                    if !ok {
                        out.violations.push(json!({"replay": out_dir.join("flood.json").to_string_lossy(), "step": round,
                            "first": format!("flood round {round}: key-{t} reads {got:?}, not the last value a writer was acknowledged")}));
                    }
                }
            }
        }
        out.behaviours += 1;
        out.steps += progress.load(Ordering::Relaxed);
        out.distinct.insert(hash_str(&format!("flood{round}")));
        if out.samples.is_empty() {
            out.samples.push(json!({"round": round, "workers": workers, "writers": writers, "writes": progress.load(Ordering::Relaxed),
                "sealed": ks.sealed_memtable_count(), "tables": ks.table_count()}));
        }
        if stuck {
            let rp = out_dir.join("flood.json");
            let _ = std::fs::write(&rp, serde_json::to_string_pretty(&json!({"kind": "flood", "round": round, "workers": workers, "writers": writers,
                "writes_before_stall": progress.load(Ordering::Relaxed), "sealed_memtables": ks.sealed_memtable_count()})).unwrap());
            out.violations.push(json!({"replay": rp.to_string_lossy(), "step": round,
                "first": format!("flood round {round} ({writers} writers, {workers} workers, memtable 1000 bytes): no write returned for 5 s after {} writes - writers are blocked for ever", progress.load(Ordering::Relaxed))}));
            std::mem::forget(ks);
            std::mem::forget(db);
            return out;
        }
        drop(ks);
        let (tx, rx) = std::sync::mpsc::channel();
        std::thread::spawn(move || {
            drop(db);
            let _ = tx.send(());
        });
        if rx.recv_timeout(std::time::Duration::from_secs(30)).is_err() {
            out.violations.push(json!({"replay": out_dir.join("flood.json").to_string_lossy(), "step": round, "first": "dropping the database after the flood did not return within 30 s"}));
            return out;
        }
        let _ = std::fs::remove_dir_all(&dir);
    }
    let _ = std::fs::remove_dir_all(&root);
    out
}
