//! Spec -> implementation replay for FjallStore behaviours.
//!
//! Input: one behaviour per line, each a JSON array of steps `{lvl, act, st}` exported by TLC
//! (MC_Store!Export).  Every step is executed against the real database (0 worker threads,
//! background work stepped synchronously through the verif hooks), and after every step the
//! real state is projected through the public read API and compared with the model's state.

use crate::util::{fresh_dir, hash_str, hexs, Concretizer, Outcome};
use fjall::{
    Database, Keyspace, KeyspaceCreateOptions, KvSeparationOptions, PersistMode, Readable,
    Snapshot,
};
use serde_json::{json, Value};
use std::collections::BTreeMap;
use std::ops::Bound;
use std::path::{Path, PathBuf};
use std::sync::Arc;

#[derive(Clone, Debug)]
pub struct Variant {
    pub kv_sep: bool,
    pub journal_compression: bool,
    pub key_scheme: u32,
    pub val_scheme: u32,
    pub filter_names: Vec<String>,
    /// manual_journal_persist of the keyspaces (insert / remove / clear)
    pub manual_persist: bool,
    /// manual_journal_persist of the database (batches / transactions)
    pub manual_db: bool,
    /// the database is opened as a SingleWriterTxDatabase and every Batch step commits as a write
    /// transaction (with the step's durability level)
    pub tx_batches: bool,
}

impl Variant {
    pub fn from_index(i: u64, filter_names: &[String]) -> Self {
        Self {
            kv_sep: i % 2 == 1,
            journal_compression: (i / 2) % 2 == 0,
            key_scheme: ((i / 4) % 4) as u32,
            val_scheme: ((i / 3) % 4) as u32,
            filter_names: filter_names.to_vec(),
            manual_persist: false,
            manual_db: false,
            tx_batches: false,
        }
    }

    pub fn describe(&self) -> Value {
        json!({"kv_sep": self.kv_sep, "journal_compression": self.journal_compression,
               "key_scheme": self.key_scheme, "val_scheme": self.val_scheme,
               "filter_names": self.filter_names, "manual_persist_keyspace": self.manual_persist, "manual_persist_database": self.manual_db})
    }
}

// ------------------------------------------------------------------------------------------
// compaction filter used for C18: first model key -> Remove, second -> ReplaceValue(const)
// ------------------------------------------------------------------------------------------

pub const FILTERED_MODEL_VAL: u64 = 99;
pub const FILTERED_MODEL_VAL_B: u64 = 98;

struct KeyFilter {
    k1: Vec<u8>,
    k2: Vec<u8>,
    replacement: Vec<u8>,
    /// kind "B": k1 is removed only if its value is an odd model number (the filter reads the value)
    by_value: Option<Concretizer>,
}

impl fjall::compaction::filter::CompactionFilter for KeyFilter {
    fn filter_item(
        &mut self,
        item: fjall::compaction::filter::ItemAccessor<'_>,
        _ctx: &fjall::compaction::filter::Context,
    ) -> fjall::compaction::filter::CompactionFilterResult {
        use fjall::compaction::filter::Verdict;
        let key: &[u8] = item.key();
        if key == &self.k1[..] {
            match &self.by_value {
                None => Ok(Verdict::Remove),
                Some(conc) => {
                    let v = item.value()?;
                    if conc.unval(&v) % 2 == 1 {
                        Ok(Verdict::Remove)
                    } else {
                        Ok(Verdict::Keep)
                    }
                }
            }
        } else if key == &self.k2[..] {
            Ok(Verdict::ReplaceValue(self.replacement.clone().into()))
        } else {
            Ok(Verdict::Keep)
        }
    }
}

struct KeyFilterFactory {
    k1: Vec<u8>,
    k2: Vec<u8>,
    replacement: Vec<u8>,
    by_value: Option<Concretizer>,
}

impl fjall::compaction::filter::Factory for KeyFilterFactory {
    fn name(&self) -> &str {
        "verif-key-filter"
    }

    fn make_filter(
        &self,
        _ctx: &fjall::compaction::filter::Context,
    ) -> Box<dyn fjall::compaction::filter::CompactionFilter> {
        Box::new(KeyFilter {
            k1: self.k1.clone(),
            k2: self.k2.clone(),
            replacement: self.replacement.clone(),
            by_value: self.by_value.clone(),
        })
    }
}

// ------------------------------------------------------------------------------------------

pub struct World {
    pub dir: PathBuf,
    pub db: Option<Database>,
    pub txdb: Option<fjall::SingleWriterTxDatabase>,
    pub ks: BTreeMap<String, Keyspace>,
    pub held: BTreeMap<u64, Keyspace>,
    pub views: BTreeMap<u64, Snapshot>,
    /// lazily consumed iterators opened together with a view: vid -> (keyspace, kind, iterator)
    pub view_iters: BTreeMap<u64, Vec<(String, &'static str, fjall::Iter)>>,
    pub conc: Concretizer,
    pub variant: Variant,
    pub nkeys: u64,
    /// keys of filtered keyspaces observed in filtered form: (name, key) -> true
    pub seen_filtered: BTreeMap<(String, u64), (bool, u64)>,
}

macro_rules! configured_open {
    ($builder:expr, $variant:ident, $conc:ident) => {{
        let variant = $variant;
        let conc = $conc;

    let mut b = $builder
        .worker_threads_unchecked(0)
        .manual_journal_persist(variant.manual_db);
    b = b.journal_compression(if variant.journal_compression {
        fjall::CompressionType::Lz4
    } else {
        fjall::CompressionType::None
    });
    if !variant.filter_names.is_empty() {
        let names = variant.filter_names.clone();
        let k1 = conc.key(1);
        let k2 = conc.key(2);
        let replacement = conc.val(FILTERED_MODEL_VAL);
        let replacement_b = conc.val(FILTERED_MODEL_VAL_B);
        let conc_f = conc.clone();
        b = b.with_compaction_filter_factories(Arc::new(move |name: &str| {
            if names.iter().any(|n| n == name) {
                // every name gets its OWN filter (both factories report the same name()):
                //   "a": key 1 -> Remove, key 2 -> ReplaceValue(99)
                //   any other name: key 2 -> Remove, key 1 -> ReplaceValue(98)
                let f: Arc<dyn fjall::compaction::filter::Factory> = if name == "a" {
                    Arc::new(KeyFilterFactory {
                        k1: k1.clone(),
                        k2: k2.clone(),
                        replacement: replacement.clone(),
                        by_value: None,
                    })
                } else {
                    Arc::new(KeyFilterFactory {
                        k1: k2.clone(),
                        k2: k1.clone(),
                        replacement: replacement_b.clone(),
                        by_value: Some(conc_f.clone()),
                    })
                };
                Some(f)
            } else {
                None
            }
        }));
    }
    b.open()
    }};
}

pub fn open_db(dir: &Path, variant: &Variant, conc: &Concretizer) -> fjall::Result<Database> {
    configured_open!(Database::builder(dir), variant, conc)
}

/// The same configuration through the single-writer transactional database (its inner
/// `Database` is what the rest of the harness drives; batches then commit as transactions).
pub fn open_db_tx(dir: &Path, variant: &Variant, conc: &Concretizer) -> fjall::Result<fjall::SingleWriterTxDatabase> {
    configured_open!(fjall::SingleWriterTxDatabase::builder(dir), variant, conc)
}

pub fn ks_options(variant: &Variant) -> KeyspaceCreateOptions {
    let mut o = KeyspaceCreateOptions::default().manual_journal_persist(variant.manual_persist);
    if variant.kv_sep {
        o = o.with_kv_separation(Some(
            KvSeparationOptions::default().separation_threshold(64),
        ));
    }
    o
}

impl World {
    pub fn new(dir: PathBuf, variant: Variant, seed: u64, nkeys: u64) -> fjall::Result<Self> {
        let conc = Concretizer::new(variant.key_scheme, variant.val_scheme, seed);
        let (db, txdb) = if variant.tx_batches {
            let t = open_db_tx(&dir, &variant, &conc)?;
            (t.inner().clone(), Some(t))
        } else {
            (open_db(&dir, &variant, &conc)?, None)
        };
        Ok(Self {
            dir,
            db: Some(db),
            txdb,
            ks: BTreeMap::new(),
            held: BTreeMap::new(),
            views: BTreeMap::new(),
            view_iters: BTreeMap::new(),
            conc,
            variant,
            nkeys,
            seen_filtered: BTreeMap::new(),
        })
    }

    fn db(&self) -> &Database {
        self.db.as_ref().expect("db open")
    }

    fn get_ks(&self, name: &str) -> Result<&Keyspace, String> {
        self.ks
            .get(name)
            .ok_or_else(|| format!("harness has no handle for keyspace {name}"))
    }

    pub fn close(&mut self) {
        self.view_iters.clear();
        self.views.clear();
        self.held.clear();
        self.ks.clear();
        self.txdb = None;
        self.db = None;
    }

    pub fn reopen(&mut self) -> Result<(), String> {
        self.close();
        // a journal written under one compression setting must be readable under the other
        self.variant.journal_compression = !self.variant.journal_compression;
        let db = if self.variant.tx_batches {
            let t = open_db_tx(&self.dir, &self.variant, &self.conc).map_err(|e| format!("{e:?}"))?;
            let d = t.inner().clone();
            self.txdb = Some(t);
            d
        } else {
            open_db(&self.dir, &self.variant, &self.conc).map_err(|e| format!("{e:?}"))?
        };
        for name in db.list_keyspace_names() {
            // opening an existing keyspace: options passed here must be ignored
            let k = db
                .keyspace(&name, KeyspaceCreateOptions::default)
                .map_err(|e| format!("{e:?}"))?;
            self.ks.insert(name.to_string(), k);
        }
        self.db = Some(db);
        Ok(())
    }

    /// Executes one model action. `prev` is the model state before the action.
    pub fn exec(&mut self, act: &Value, prev: Option<&Value>) -> Result<(), String> {
        let a = act["a"].as_str().unwrap_or("");
        let e = |x: fjall::Error| format!("{x:?}");
        match a {
            "Init" => Ok(()),
            "Create" => {
                let name = act["name"].as_str().unwrap();
                // every other time the options are cloned from the handle of another live keyspace
                // (they then carry whatever that keyspace's options carry, e.g. its compaction
                // filter factory): which filter the NEW keyspace gets is the assigner's decision
                let donor = self.ks.values().next().cloned();
                let opts = match donor {
                    Some(d) if (self.conc.seed ^ crate::util::hash_str(name)) % 2 == 0 => d.config.clone(),
                    _ => ks_options(&self.variant),
                };
                let k = self.db().keyspace(name, move || opts).map_err(e)?;
                self.ks.insert(name.to_string(), k);
                Ok(())
            }
            "Delete" => {
                let name = act["name"].as_str().unwrap();
                let keep = act["keep"].as_bool().unwrap_or(false);
                let k = self
                    .ks
                    .remove(name)
                    .ok_or_else(|| format!("no handle for {name}"))?;
                let id = prev
                    .and_then(|p| p["ks"][name]["id"].as_u64())
                    .unwrap_or(k.id());
                if keep {
                    self.held.insert(id, k.clone());
                }
                self.db().delete_keyspace(k).map_err(e)?;
                Ok(())
            }
            "DropHandle" => {
                let id = act["id"].as_u64().unwrap();
                self.held.remove(&id);
                Ok(())
            }
            "Insert" => {
                let k = self.get_ks(act["name"].as_str().unwrap())?;
                k.insert(
                    self.conc.key(act["k"].as_u64().unwrap()),
                    self.conc.val(act["v"].as_u64().unwrap()),
                )
                .map_err(e)
            }
            "Remove" => {
                let k = self.get_ks(act["name"].as_str().unwrap())?;
                k.remove(self.conc.key(act["k"].as_u64().unwrap())).map_err(e)
            }
            "Batch" if self.txdb.is_some() => {
                // the batch as a write transaction of the single-writer database
                let txdb = self.txdb.as_ref().unwrap();
                let mut tx = txdb.write_tx();
                match act["dur"].as_str().unwrap_or("none") {
                    "Buffer" => tx = tx.durability(Some(fjall::PersistMode::Buffer)),
                    "SyncData" => tx = tx.durability(Some(fjall::PersistMode::SyncData)),
                    "SyncAll" => tx = tx.durability(Some(fjall::PersistMode::SyncAll)),
                    _ => {}
                }
                for it in act["items"].as_array().unwrap() {
                    let name = it["name"].as_str().unwrap();
                    self.get_ks(name)?;
                    let tk = txdb.keyspace(name, KeyspaceCreateOptions::default).map_err(e)?;
                    let key = self.conc.key(it["k"].as_u64().unwrap());
                    if it["del"].as_bool().unwrap_or(false) {
                        tx.remove(&tk, key);
                    } else {
                        tx.insert(&tk, key, self.conc.val(it["v"].as_u64().unwrap()));
                    }
                }
                tx.commit().map_err(e)
            }
            "Batch" => {
                let mut b = self.db().batch();
                match act["dur"].as_str().unwrap_or("none") {
                    "Buffer" => b = b.durability(Some(fjall::PersistMode::Buffer)),
                    "SyncData" => b = b.durability(Some(fjall::PersistMode::SyncData)),
                    "SyncAll" => b = b.durability(Some(fjall::PersistMode::SyncAll)),
                    _ => {}
                }
                for it in act["items"].as_array().unwrap() {
                    let k = self.get_ks(it["name"].as_str().unwrap())?;
                    let key = self.conc.key(it["k"].as_u64().unwrap());
                    if it["del"].as_bool().unwrap_or(false) {
                        b.remove(k, key);
                    } else {
                        b.insert(k, key, self.conc.val(it["v"].as_u64().unwrap()));
                    }
                }
                b.commit().map_err(e)
            }
            "StaleBatch" => {
                // one item through the kept handle of a deleted keyspace, one for a live keyspace
                let id = act["id"].as_u64().unwrap();
                let stale = self.held.get(&id).cloned().ok_or_else(|| format!("no kept handle for keyspace {id}"))?;
                let mut b = self.db().batch();
                let key = self.conc.key(act["k"].as_u64().unwrap());
                if act["del"].as_bool().unwrap_or(false) {
                    b.remove(&stale, key);
                } else {
                    b.insert(&stale, key, self.conc.val(act["v"].as_u64().unwrap()));
                }
                let it = &act["item"];
                let k = self.get_ks(it["name"].as_str().unwrap())?;
                let key = self.conc.key(it["k"].as_u64().unwrap());
                if it["del"].as_bool().unwrap_or(false) {
                    b.remove(k, key);
                } else {
                    b.insert(k, key, self.conc.val(it["v"].as_u64().unwrap()));
                }
                b.commit().map_err(e)
            }
            "Clear" => {
                let k = self.get_ks(act["name"].as_str().unwrap())?;
                k.clear().map_err(e)
            }
            "Ingest" => {
                let k = self.get_ks(act["name"].as_str().unwrap())?;
                let v = act["v"].as_u64().unwrap();
                let mut keys: Vec<u64> = act["keys"]
                    .as_array()
                    .unwrap()
                    .iter()
                    .map(|x| x.as_u64().unwrap())
                    .collect();
                keys.sort_unstable();
                let tombs: Vec<u64> = act["tombs"]
                    .as_array()
                    .unwrap()
                    .iter()
                    .map(|x| x.as_u64().unwrap())
                    .collect();
                let mut ing = k.start_ingestion().map_err(e)?;
                for key in keys {
                    if tombs.contains(&key) {
                        ing.write_tombstone(self.conc.key(key)).map_err(e)?;
                    } else {
                        ing.write(self.conc.key(key), self.conc.val(v)).map_err(e)?;
                    }
                }
                ing.finish().map_err(e)
            }
            "Rotate" => {
                let k = self.get_ks(act["name"].as_str().unwrap())?;
                let did = k.rotate_memtable().map_err(e)?;
                if !did {
                    return Err("rotate_memtable returned false on a non-empty memtable".into());
                }
                Ok(())
            }
            "Flush" => {
                let jrot = act["jrot"].as_bool().unwrap_or(false);
                let id = act["id"].as_u64().unwrap_or(0);
                if id != 0 && !self.db().verif_flush_task_to_front(id) {
                    return Err(format!("no queued flush task for keyspace id {id}"));
                }
                fjall::verif::set_force_journal_rotation(jrot);
                // use the queued Flush message if there is one, else synthesize
                let pending = self.db().verif_pending();
                let r = if let Some(i) = pending.iter().position(|m| m == "WorkerMessage:Flush") {
                    self.db().verif_step(i)
                } else {
                    self.db().verif_flush()
                };
                fjall::verif::set_force_journal_rotation(false);
                r.map_err(e)?;
                Ok(())
            }
            "Compact" => {
                let name = act["name"].as_str().unwrap();
                let k = self.get_ks(name)?.clone();
                if act["major"].as_bool().unwrap_or(false) {
                    k.major_compact().map_err(e)
                } else {
                    let pending = self.db().verif_pending();
                    let want = format!("WorkerMessage:Compact({name:?})");
                    let r = if let Some(i) = pending.iter().position(|m| *m == want) {
                        self.db().verif_step(i)
                    } else {
                        self.db().verif_compact(&k)
                    };
                    r.map_err(e)?;
                    Ok(())
                }
            }
            "OpenView" => {
                let vid = act["vid"].as_u64().unwrap();
                let s = self.db().snapshot();
                // iterators taken directly from the keyspaces at the same moment; they are
                // consumed only when the view is closed (they must still show the old state)
                let mut its = Vec::new();
                for (i, (name, k)) in self.ks.iter().enumerate() {
                    match (vid as usize + i + self.conc.seed as usize) % 4 {
                        0 => its.push((name.clone(), "iter", k.iter())),
                        1 => its.push((name.clone(), "range", k.range::<Vec<u8>, _>(..))),
                        2 => its.push((name.clone(), "prefix", k.prefix(b""))),
                        _ => {}
                    }
                }
                self.views.insert(vid, s);
                self.view_iters.insert(vid, its);
                Ok(())
            }
            "CloseView" => {
                let vid = act["vid"].as_u64().unwrap();
                let mut problems = Vec::new();
                if let Some(its) = self.view_iters.remove(&vid) {
                    let pv = prev.and_then(|p| {
                        p["views"].as_array().and_then(|a| a.iter().find(|v| v["vid"].as_u64() == Some(vid)).cloned())
                    });
                    for (name, kind, it) in its {
                        let mut got = vec![0u64; self.nkeys as usize];
                        let keys: Vec<Vec<u8>> = (1..=self.nkeys).map(|i| self.conc.key(i)).collect();
                        for g in it {
                            match g.into_inner() {
                                Ok((kb, v)) => {
                                    if let Some(i) = keys.iter().position(|x| x[..] == kb[..]) {
                                        got[i] = self.conc.unval(&v);
                                    }
                                }
                                Err(e) => problems.push(format!("{kind} iterator of view {vid}: {e:?}")),
                            }
                        }
                        if let Some(pv) = &pv {
                            let mv = &pv["ks"][&name];
                            if !mv.is_null() && !mv["tainted"].as_bool().unwrap_or(false) {
                                let frozen = arr_u64(&mv["frozen"]);
                                if frozen != got {
                                    problems.push(format!(
                                        "Keyspace::{kind} iterator on {name} opened with view {vid} yields {got:?} when consumed later, state at creation was {frozen:?}"
                                    ));
                                }
                            }
                        }
                    }
                }
                self.views.remove(&vid);
                if problems.is_empty() {
                    Ok(())
                } else {
                    Err(format!("FROZEN-ITER {}", problems.join("; ")))
                }
            }
            "GC" => {
                self.db().supervisor.snapshot_tracker.verif_gc();
                Ok(())
            }
            "Persist" => {
                let mode = match act["mode"].as_str().unwrap_or("SyncAll") {
                    "Buffer" => PersistMode::Buffer,
                    "SyncData" => PersistMode::SyncData,
                    _ => PersistMode::SyncAll,
                };
                self.db().persist(mode).map_err(e)
            }
            "Reopen" => self.reopen(),
            other => Err(format!("unknown action {other}")),
        }
    }
}

// ------------------------------------------------------------------------------------------
// Projection of the real state and comparison
// ------------------------------------------------------------------------------------------

/// Reads key k through a `Readable`/keyspace: returns model value (0 = absent).
fn decode(conc: &Concretizer, v: Option<fjall::UserValue>) -> u64 {
    match v {
        None => 0,
        Some(b) => conc.unval(&b),
    }
}

pub struct KsReads {
    pub point: Vec<u64>,
    pub scan: Vec<u64>,
    pub extra_problems: Vec<String>,
}

fn collect_pairs(conc: &Concretizer, it: fjall::Iter, problems: &mut Vec<String>, what: &str)
    -> Vec<(Vec<u8>, u64)> {
    let mut out = Vec::new();
    for g in it {
        match g.into_inner() {
            Ok((k, v)) => out.push((k.to_vec(), conc.unval(&v))),
            Err(e) => problems.push(format!("{what}: iterator error {e:?}")),
        }
    }
    out
}

/// Full read surface of one keyspace at SeqNo::MAX (direct keyspace methods).
pub fn read_keyspace(w: &World, k: &Keyspace, deep: bool) -> KsReads {
    let conc = &w.conc;
    let mut problems = Vec::new();
    let mut point = Vec::new();
    let keys: Vec<Vec<u8>> = (1..=w.nkeys).map(|i| conc.key(i)).collect();
    for key in &keys {
        match k.get(key) {
            Ok(v) => point.push(decode(conc, v)),
            Err(e) => {
                problems.push(format!("get error {e:?}"));
                point.push(u64::MAX);
            }
        }
    }
    let pairs = collect_pairs(conc, k.iter(), &mut problems, "iter");
    let mut scan = vec![0u64; w.nkeys as usize];
    let mut last: Option<Vec<u8>> = None;
    for (kb, v) in &pairs {
        if let Some(l) = &last {
            if l >= kb {
                problems.push(format!("iter not strictly ascending at {}", hexs(kb)));
            }
        }
        last = Some(kb.clone());
        match keys.iter().position(|x| x == kb) {
            Some(i) => scan[i] = *v,
            None => problems.push(format!("iter yields a key never written: {}", hexs(kb))),
        }
    }

    if deep {
        // the map the scan shows
        let m: Vec<(Vec<u8>, u64)> = pairs.clone();
        let expect_range = |lo: &Bound<Vec<u8>>, hi: &Bound<Vec<u8>>| -> Vec<(Vec<u8>, u64)> {
            m.iter()
                .filter(|(kb, _)| {
                    (match lo {
                        Bound::Included(l) => kb >= l,
                        Bound::Excluded(l) => kb > l,
                        Bound::Unbounded => true,
                    }) && (match hi {
                        Bound::Included(h) => kb <= h,
                        Bound::Excluded(h) => kb < h,
                        Bound::Unbounded => true,
                    })
                })
                .cloned()
                .collect()
        };
        // point-read family
        for (i, key) in keys.iter().enumerate() {
            let present = scan[i] != 0;
            match k.contains_key(key) {
                Ok(b) if b == (point[i] != 0) => {}
                other => problems.push(format!("contains_key({}) = {other:?}, get says {}", hexs(key), point[i])),
            }
            match k.size_of(key) {
                Ok(sz) => {
                    let exp = if point[i] != 0 && point[i] != u64::MAX {
                        Some(conc.val(point[i]).len() as u32)
                    } else {
                        None
                    };
                    if point[i] != u64::MAX && sz != exp {
                        problems.push(format!("size_of({}) = {sz:?}, expected {exp:?}", hexs(key)));
                    }
                }
                Err(e) => problems.push(format!("size_of error {e:?}")),
            }
            let _ = present;
        }
        for key in conc.absent_keys() {
            if !matches!(k.get(&key), Ok(None)) {
                problems.push(format!("get of never-written key {} is not None", hexs(&key)));
            }
            if !matches!(k.contains_key(&key), Ok(false)) {
                problems.push(format!("contains_key of never-written key {}", hexs(&key)));
            }
        }
        // len / is_empty / first / last
        match k.len() {
            Ok(n) if n == m.len() => {}
            other => problems.push(format!("len = {other:?}, scan has {}", m.len())),
        }
        match k.is_empty() {
            Ok(b) if b == m.is_empty() => {}
            other => problems.push(format!("is_empty = {other:?}, scan has {}", m.len())),
        }
        let first = k.first_key_value().map(|g| g.into_inner());
        match (first, m.first()) {
            (None, None) => {}
            (Some(Ok((kb, v))), Some((ek, ev))) if kb.to_vec() == *ek && conc.unval(&v) == *ev => {}
            (f, e) => problems.push(format!("first_key_value mismatch: {:?} vs {:?}", f.map(|x| x.map(|(k, _)| hexs(&k))), e.map(|(k, _)| hexs(k)))),
        }
        let lastkv = k.last_key_value().map(|g| g.into_inner());
        match (lastkv, m.last()) {
            (None, None) => {}
            (Some(Ok((kb, v))), Some((ek, ev))) if kb.to_vec() == *ek && conc.unval(&v) == *ev => {}
            (f, e) => problems.push(format!("last_key_value mismatch: {:?} vs {:?}", f.map(|x| x.map(|(k, _)| hexs(&k))), e.map(|(k, _)| hexs(k)))),
        }
        // reverse scan
        let mut rev = Vec::new();
        for g in k.iter().rev() {
            if let Ok((kb, v)) = g.into_inner() {
                rev.push((kb.to_vec(), conc.unval(&v)));
            }
        }
        rev.reverse();
        if rev != m {
            problems.push("reverse iter differs from forward iter".into());
        }
        // both ends alternately
        {
            let mut it = k.iter();
            let mut front = Vec::new();
            let mut back = Vec::new();
            let mut turn = true;
            loop {
                let n = if turn { it.next() } else { it.next_back() };
                turn = !turn;
                match n {
                    None => break,
                    Some(g) => {
                        if let Ok((kb, v)) = g.into_inner() {
                            if !turn {
                                front.push((kb.to_vec(), conc.unval(&v)));
                            } else {
                                back.push((kb.to_vec(), conc.unval(&v)));
                            }
                        }
                    }
                }
            }
            back.reverse();
            front.extend(back);
            if front != m {
                problems.push("iter consumed from both ends differs from forward iter".into());
            }
        }
        // ranges over all bound shapes on universe + absent keys
        let mut pts: Vec<Vec<u8>> = keys.clone();
        pts.extend(conc.absent_keys());
        pts.sort();
        pts.dedup();
        let mk = |kind: u8, p: &Vec<u8>| match kind {
            0 => Bound::Included(p.clone()),
            1 => Bound::Excluded(p.clone()),
            _ => Bound::Unbounded,
        };
        for (ai, a) in pts.iter().enumerate() {
            for b in pts.iter().skip(ai) {
                for lk in 0..3u8 {
                    for hk in 0..3u8 {
                        if (lk == 2 && ai != 0) || (hk == 2 && b != pts.last().unwrap()) {
                            continue;
                        }
                        let lo = mk(lk, a);
                        let hi = mk(hk, b);
                        // std panics for excluded-excluded equal bounds in BTreeMap; lsm-tree is
                        // expected to simply return nothing
                        let exp = if a == b && (lk == 1 || hk == 1) && lk != 2 && hk != 2 {
                            Vec::new()
                        } else {
                            expect_range(&lo, &hi)
                        };
                        let got = collect_pairs(
                            conc,
                            k.range::<Vec<u8>, _>((lo.clone(), hi.clone())),
                            &mut problems,
                            "range",
                        );
                        if got != exp {
                            problems.push(format!(
                                "range({:?},{:?}) = {} items, expected {}",
                                bound_s(&lo), bound_s(&hi), got.len(), exp.len()
                            ));
                        }
                        let mut gotr = Vec::new();
                        for g in k.range::<Vec<u8>, _>((lo.clone(), hi.clone())).rev() {
                            if let Ok((kb, v)) = g.into_inner() {
                                gotr.push((kb.to_vec(), conc.unval(&v)));
                            }
                        }
                        gotr.reverse();
                        if gotr != exp {
                            problems.push(format!(
                                "range({:?},{:?}).rev() differs", bound_s(&lo), bound_s(&hi)
                            ));
                        }
                    }
                }
            }
        }
        // prefixes: every prefix of every universe key, plus the empty prefix
        let mut prefixes: Vec<Vec<u8>> = vec![vec![]];
        for key in &keys {
            for l in 1..=key.len().min(8) {
                prefixes.push(key[..l].to_vec());
            }
            prefixes.push(key.clone());
        }
        prefixes.sort();
        prefixes.dedup();
        for p in prefixes {
            let exp: Vec<(Vec<u8>, u64)> =
                m.iter().filter(|(kb, _)| kb.starts_with(&p)).cloned().collect();
            let got = collect_pairs(conc, k.prefix(&p), &mut problems, "prefix");
            if got != exp {
                problems.push(format!("prefix({}) = {} items, expected {}", hexs(&p), got.len(), exp.len()));
            }
            let mut gotr = Vec::new();
            for g in k.prefix(&p).rev() {
                if let Ok((kb, v)) = g.into_inner() {
                    gotr.push((kb.to_vec(), conc.unval(&v)));
                }
            }
            gotr.reverse();
            if gotr != exp {
                problems.push(format!("prefix({}).rev() differs", hexs(&p)));
            }
        }
    }

    KsReads {
        point,
        scan,
        extra_problems: problems,
    }
}

fn bound_s(b: &Bound<Vec<u8>>) -> String {
    match b {
        Bound::Included(x) => format!("[{}", hexs(x)),
        Bound::Excluded(x) => format!("({}", hexs(x)),
        Bound::Unbounded => "..".into(),
    }
}

/// Read surface through a snapshot (Readable).
pub fn read_view(w: &World, s: &Snapshot, k: &Keyspace, deep: bool) -> KsReads {
    let conc = &w.conc;
    let mut problems = Vec::new();
    let keys: Vec<Vec<u8>> = (1..=w.nkeys).map(|i| conc.key(i)).collect();
    let mut point = Vec::new();
    for key in &keys {
        match s.get(k, key) {
            Ok(v) => point.push(decode(conc, v)),
            Err(e) => {
                problems.push(format!("snapshot get error {e:?}"));
                point.push(u64::MAX);
            }
        }
    }
    let pairs = collect_pairs(conc, s.iter(k), &mut problems, "snapshot iter");
    let mut scan = vec![0u64; w.nkeys as usize];
    for (kb, v) in &pairs {
        match keys.iter().position(|x| x == kb) {
            Some(i) => scan[i] = *v,
            None => problems.push(format!("snapshot iter yields unknown key {}", hexs(kb))),
        }
    }
    if deep {
        for (i, key) in keys.iter().enumerate() {
            match s.contains_key(k, key) {
                Ok(b) if b == (point[i] != 0) => {}
                other => problems.push(format!("snapshot contains_key = {other:?}")),
            }
            if let Ok(sz) = s.size_of(k, key) {
                let exp = if point[i] != 0 && point[i] != u64::MAX {
                    Some(conc.val(point[i]).len() as u32)
                } else {
                    None
                };
                if point[i] != u64::MAX && sz != exp {
                    problems.push(format!("snapshot size_of = {sz:?}, expected {exp:?}"));
                }
            }
        }
        match s.len(k) {
            Ok(n) if n == pairs.len() => {}
            other => problems.push(format!("snapshot len = {other:?}, iter has {}", pairs.len())),
        }
        match s.is_empty(k) {
            Ok(b) if b == pairs.is_empty() => {}
            other => problems.push(format!("snapshot is_empty = {other:?}")),
        }
        let f = s.first_key_value(k).and_then(|g| g.into_inner().ok()).map(|(a, b)| (a.to_vec(), conc.unval(&b)));
        if f.as_ref() != pairs.first() {
            problems.push("snapshot first_key_value mismatch".into());
        }
        let l = s.last_key_value(k).and_then(|g| g.into_inner().ok()).map(|(a, b)| (a.to_vec(), conc.unval(&b)));
        if l.as_ref() != pairs.last() {
            problems.push("snapshot last_key_value mismatch".into());
        }
        // range / prefix through the snapshot
        let full = collect_pairs(conc, s.range::<Vec<u8>, _>(k, ..), &mut problems, "snapshot range");
        if full != pairs {
            problems.push("snapshot range(..) differs from snapshot iter".into());
        }
        let pf = collect_pairs(conc, s.prefix(k, b""), &mut problems, "snapshot prefix");
        if pf != pairs {
            problems.push("snapshot prefix(\"\") differs from snapshot iter".into());
        }
    }
    KsReads {
        point,
        scan,
        extra_problems: problems,
    }
}

fn arr_u64(v: &Value) -> Vec<u64> {
    v.as_array()
        .map(|a| a.iter().map(|x| x.as_u64().unwrap_or(u64::MAX)).collect())
        .unwrap_or_default()
}

fn filtered_form(kind: &str, k: u64, v: u64) -> u64 {
    if v == 0 {
        return 0;
    }
    match (kind, k) {
        ("A", 1) => 0,
        ("B", 2) => {
            if v % 2 == 1 {
                0
            } else {
                v
            }
        }
        ("A", 2) => FILTERED_MODEL_VAL,
        ("B", 1) => FILTERED_MODEL_VAL_B,
        _ => v,
    }
}

pub struct Diff {
    pub violations: Vec<String>,
    pub known: Vec<String>,
}

/// Compares the real state with the model state `st` after action `act`.
pub fn compare(w: &mut World, st: &Value, act: &Value, deep: bool) -> Diff {
    let mut d = Diff {
        violations: vec![],
        known: vec![],
    };
    let db = w.db().clone();

    // keyspace set
    let mut real_names: Vec<String> = db.list_keyspace_names().iter().map(|s| s.to_string()).collect();
    real_names.sort();
    let mut model_names: Vec<String> = st["names"]
        .as_array()
        .map(|a| a.iter().map(|x| x.as_str().unwrap().to_string()).collect())
        .unwrap_or_default();
    model_names.sort();
    if real_names != model_names {
        d.violations.push(format!(
            "keyspace names: real {real_names:?}, model {model_names:?}"
        ));
    }
    for n in ["a", "b", "c"] {
        let ex = db.keyspace_exists(n);
        if ex != model_names.iter().any(|m| m == n) {
            d.violations.push(format!("keyspace_exists({n}) = {ex}"));
        }
    }

    let is_major = act["a"] == "Compact" && act["major"].as_bool().unwrap_or(false);

    for name in &model_names {
        let Some(k) = w.ks.get(name).cloned() else {
            d.violations.push(format!("no real handle for keyspace {name}"));
            continue;
        };
        let m = &st["ks"][name];
        let exp_point = arr_u64(&m["point"]);
        let exp_scan = arr_u64(&m["scan"]);
        let refv = arr_u64(&m["ref"]);
        let tainted = m["tainted"].as_bool().unwrap_or(false);
        let filtered = m["filter"].as_bool().unwrap_or(false);
        if m["id"].as_u64() != Some(k.id()) {
            d.violations.push(format!(
                "keyspace {name}: real id {} model id {}",
                k.id(),
                m["id"]
            ));
        }
        let r = read_keyspace(w, &k, deep && !tainted);
        for p in &r.extra_problems {
            if tainted {
                d.known.push(format!("D1D2 {name}: {p}"));
            } else {
                d.violations.push(format!("{name}: {p}"));
            }
        }
        for i in 0..(w.nkeys as usize) {
            let key = (i + 1) as u64;
            for (what, got, exp) in [("get", r.point[i], exp_point[i]), ("iter", r.scan[i], exp_scan[i])] {
                let want = refv[i];
                if filtered && !tainted {
                    let ff = filtered_form(m["fkind"].as_str().unwrap_or("none"), key, want);
                    // (a write to the key since the observation resets stickiness: the reference
                    // value changed)
                    let seen = w.seen_filtered.get(&(name.clone(), key)).map_or(false, |(s, at)| *s && *at == want);
                    // a write to this key resets stickiness
                    let ok = got == want || got == ff;
                    if !ok {
                        d.violations.push(format!(
                            "{name} key {key} {what} = {got}, allowed original {want} or filtered form {ff}"
                        ));
                    } else if seen && got != ff {
                        // known finding D24: the model (mechanistic) predicts the replay of the
                        // journal record of an item the filter had removed
                        let kf24 = st["kf"].as_array().map_or(false, |a| a.iter().any(|x| x == "D24"));
                        if kf24 && ff == 0 && got == exp {
                            d.known.push(format!(
                                "D24 {name} key {key} {what}: removed by the compaction filter earlier, back in original form {got} after reopen (journal record above the tables' highest persisted seqno replayed)"
                            ));
                        } else {
                            d.violations.push(format!(
                                "{name} key {key} {what}: observed filtered earlier, now back to original {got}"
                            ));
                        }
                    } else if is_major && got != exp {
                        d.violations.push(format!(
                            "{name} key {key} {what} = {got} after major compaction, model {exp}"
                        ));
                    }
                    continue;
                }
                if got == want {
                    continue;
                }
                if tainted && got == exp {
                    d.known.push(format!(
                        "D1D2 {name} key {key} {what} = {got}, reference {want} (journal record replayed over newer ingested data)"
                    ));
                } else if tainted
                    && (got == exp_point[i]
                        || got == exp_scan[i]
                        || got == 0
                        || arr_u64(&m["cand"][i]).contains(&got))
                {
                    d.known.push(format!(
                        "D1D2 {name} key {key} {what} = {got}, reference {want} (structure-dependent)"
                    ));
                } else {
                    d.violations.push(format!(
                        "{name} key {key} {what} = {got}, reference {want}, model {exp}"
                    ));
                }
            }
            if r.point[i] != r.scan[i] && !tainted {
                d.violations.push(format!(
                    "{name} key {key}: get = {} but iter = {}",
                    r.point[i], r.scan[i]
                ));
            }
        }
        // update stickiness bookkeeping for filtered keyspaces
        if filtered {
            for i in 0..(w.nkeys as usize) {
                let key = (i + 1) as u64;
                let want = refv[i];
                let ff = filtered_form(m["fkind"].as_str().unwrap_or("none"), key, want);
                let now_filtered = want != ff && r.scan[i] == ff && r.point[i] == ff;
                w.seen_filtered.insert((name.clone(), key), (now_filtered, want));
            }
        }
        let sealed = k.sealed_memtable_count() as u64;
        if Some(sealed) != m["sealed"].as_u64() && !tainted {
            d.violations.push(format!(
                "{name}: sealed memtables real {sealed} model {}",
                m["sealed"]
            ));
        }
    }

    // views
    if let Some(vs) = st["views"].as_array() {
        for v in vs {
            let vid = v["vid"].as_u64().unwrap();
            let Some(s) = w.views.get(&vid).cloned() else {
                d.violations.push(format!("no real snapshot for view {vid}"));
                continue;
            };
            for name in &model_names {
                let Some(k) = w.ks.get(name).cloned() else { continue };
                let mv = &v["ks"][name];
                if mv.is_null() {
                    continue;
                }
                let frozen = arr_u64(&mv["frozen"]);
                let tainted = mv["tainted"].as_bool().unwrap_or(false);
                let r = match std::panic::catch_unwind(std::panic::AssertUnwindSafe(|| {
                    read_view(w, &s, &k, deep)
                })) {
                    Ok(r) => r,
                    Err(_) => {
                        d.violations.push(format!("view {vid} on {name}: read panicked"));
                        continue;
                    }
                };
                for p in &r.extra_problems {
                    d.violations.push(format!("view {vid} {name}: {p}"));
                }
                for i in 0..(w.nkeys as usize) {
                    for (what, got) in [("get", r.point[i]), ("iter", r.scan[i])] {
                        if got != frozen[i] {
                            let msg = format!(
                                "view {vid} {name} key {} {what} = {got}, frozen {}",
                                i + 1,
                                frozen[i]
                            );
                            if tainted {
                                d.known.push(format!("D1D2 {msg}"));
                            } else {
                                d.violations.push(msg);
                            }
                        }
                    }
                }
            }
        }
    }
    let iter_nonces: u64 = w.view_iters.values().map(|v| v.len() as u64).sum();
    if st["openviews"].as_u64().map(|x| x + iter_nonces) != Some(db.supervisor.snapshot_tracker.open_snapshots() as u64) {
        // iterators created by the projection are closed by now; only views remain
        d.violations.push(format!(
            "open snapshot count real {} model {}",
            db.supervisor.snapshot_tracker.open_snapshots(),
            st["openviews"]
        ));
    }

    // journal bookkeeping
    let jc = db.journal_count() as u64;
    if Some(jc) != st["jcount"].as_u64() {
        d.violations.push(format!("journal_count real {jc} model {}", st["jcount"]));
    }
    let on_disk = std::fs::read_dir(&w.dir)
        .map(|rd| {
            rd.filter_map(|e| e.ok())
                .filter(|e| e.file_name().to_string_lossy().ends_with(".jnl"))
                .count() as u64
        })
        .unwrap_or(0);
    if on_disk != jc {
        d.violations.push(format!("journal files on disk {on_disk}, journal_count {jc}"));
    }
    if st["d15"].as_bool() == Some(true) && jc > 1 {
        d.known.push(format!(
            "D15 {jc} journal files remain although every keyspace is flushed: the oldest is pinned by the watermark of a keyspace whose tables were dropped by clear()"
        ));
    }
    let fq = db.outstanding_flushes() as u64;
    if Some(fq) != st["flushq"].as_u64() {
        d.violations.push(format!("flush queue real {fq} model {}", st["flushq"]));
    }

    // counters (relational): seqno above everything in the journals and tables
    let max_j = crate::journal::max_seqno_in_dir(&w.dir);
    let seq = db.seqno();
    let vis = db.visible_seqno();
    if vis > seq {
        d.violations.push(format!("visible seqno {vis} > seqno {seq}"));
    }
    if let Some(mj) = max_j {
        if seq <= mj {
            if st["seqnoAboveJournal"].as_bool() == Some(false) {
                d.known.push(format!(
                    "D12 seqno {seq} not above journal record seqno {mj} after reopen"
                ));
            } else {
                d.violations.push(format!("seqno {seq} <= journal record seqno {mj}"));
            }
        }
    }
    for (name, k) in &w.ks {
        use fjall::AbstractTree;
        if let Some(h) = k.tree.get_highest_seqno() {
            if seq <= h {
                d.violations.push(format!("seqno {seq} <= highest seqno {h} of keyspace {name}"));
            }
        }
    }
    d
}

// ------------------------------------------------------------------------------------------

pub struct ReplayArgs {
    pub file: PathBuf,
    pub out_dir: PathBuf,
    pub property: String,
    pub seed: u64,
    pub nkeys: u64,
    pub variants: u64,
    pub deep_every: u64,
    pub filter_names: Vec<String>,
    pub allowed_kf: Vec<String>,
    pub max_behaviours: u64,
}

pub fn run_replay(args: &ReplayArgs) -> Outcome {
    let mut out = Outcome::default();
    let root = crate::util::scratch_root();
    let text = std::fs::read_to_string(&args.file).expect("read behaviours");
    let mut kf_seen: BTreeMap<String, String> = BTreeMap::new();
    for (bi, line) in text.lines().enumerate() {
        if line.trim().is_empty() {
            continue;
        }
        if args.max_behaviours > 0 && out.behaviours >= args.max_behaviours {
            break;
        }
        let steps: Vec<Value> = match serde_json::from_str::<Value>(line) {
            Ok(Value::Array(a)) => a,
            _ => {
                out.notes.push(format!("behaviour {bi}: unparsable"));
                continue;
            }
        };
        let sig: String = steps.iter().map(|s| s["act"].to_string()).collect();
        out.distinct.insert(hash_str(&sig));
        let variant = Variant::from_index(args.seed.wrapping_add(bi as u64) % args.variants.max(1), &args.filter_names);
        let dir = fresh_dir(&root, &format!("b{bi}"));
        let mut w = match World::new(dir.clone(), variant.clone(), args.seed ^ (bi as u64), args.nkeys) {
            Ok(w) => w,
            Err(e) => {
                out.notes.push(format!("behaviour {bi}: open failed {e:?}"));
                continue;
            }
        };
        out.behaviours += 1;
        let mut prev: Option<Value> = None;
        let mut failed = false;
        for (si, step) in steps.iter().enumerate() {
            let act = &step["act"];
            let st = &step["st"];
            out.steps += 1;
            let res = std::panic::catch_unwind(std::panic::AssertUnwindSafe(|| {
                w.exec(act, prev.as_ref())
            }));
            let mut viol: Vec<String> = vec![];
            let mut known: Vec<String> = vec![];
            match res {
                Err(p) => {
                    let msg = p
                        .downcast_ref::<String>()
                        .cloned()
                        .or_else(|| p.downcast_ref::<&str>().map(|s| s.to_string()))
                        .unwrap_or_default();
                    viol.push(format!("action {act} panicked: {msg}"));
                }
                Ok(Err(e)) => viol.push(format!("action {act} failed: {e}")),
                Ok(Ok(())) => {
                    let deep = args.deep_every > 0 && (si as u64 + bi as u64) % args.deep_every == 0;
                    match std::panic::catch_unwind(std::panic::AssertUnwindSafe(|| {
                        compare(&mut w, st, act, deep)
                    })) {
                        Ok(d) => {
                            viol.extend(d.violations);
                            known.extend(d.known);
                        }
                        Err(_) => viol.push(format!("projection panicked after {act}")),
                    }
                }
            }
            for kmsg in known {
                let id = kmsg.split_whitespace().next().unwrap_or("").to_string();
                if args.allowed_kf.iter().any(|a| *a == id) {
                    kf_seen.entry(id).or_insert(kmsg);
                } else {
                    viol.push(format!("(unlisted finding) {kmsg}"));
                }
            }
            if !viol.is_empty() {
                let rp = args.out_dir.join(format!("replay_{}_{}.json", args.property, bi));
                let doc = json!({
                    "property": args.property,
                    "kind": "store-replay",
                    "behaviour_index": bi,
                    "failing_step": si,
                    "variant": variant.describe(),
                    "seed": args.seed ^ (bi as u64),
                    "nkeys": args.nkeys,
                    "divergences": viol,
                    "behaviour": steps,
                });
                std::fs::write(&rp, serde_json::to_string_pretty(&doc).unwrap()).ok();
                out.violations.push(json!({"replay": rp.to_string_lossy(), "step": si,
                    "first": doc["divergences"][0]}));
                failed = true;
                break;
            }
            prev = Some(st.clone());
        }
        if out.samples.len() < 3 && !failed {
            out.samples.push(json!({
                "variant": variant.describe(),
                "actions": steps.iter().map(|s| s["act"].clone()).collect::<Vec<_>>(),
            }));
        }
        w.close();
        let _ = std::fs::remove_dir_all(&dir);
    }
    for (id, msg) in kf_seen {
        out.known.push(json!({"id": id, "example": msg}));
    }
    let _ = std::fs::remove_dir_all(&root);
    out
}
