//! C17: lifecycle of a database directory (lock, version marker, handles, worker shutdown).
//!  - `forced`: deterministic schedules (pause sites) for the rare interleavings the
//!    DbLifecycle model reports
//!  - `replay`: TLC-chosen client-level behaviours executed with real worker threads
//!  - `mt`: randomized multi-threaded handle churn, recorded through the lifecycle hooks for
//!    trace validation against DbLifecycle_Trace

use crate::util::{self, Outcome};
use fjall::{Database, KeyspaceCreateOptions, PersistMode};
use serde_json::{json, Value};
use std::collections::BTreeMap;
use std::os::fd::AsRawFd;
use std::path::{Path, PathBuf};
use std::time::{Duration, Instant};

/// TRUE if nobody holds the advisory lock of the database directory (probed with a fresh
/// file description, released at once).
pub fn lock_is_free(dir: &Path) -> Option<bool> {
    let f = std::fs::OpenOptions::new().read(true).write(true).open(dir.join("lock")).ok()?;
    let r = unsafe { libc::flock(f.as_raw_fd(), libc::LOCK_EX | libc::LOCK_NB) };
    if r == 0 {
        unsafe { libc::flock(f.as_raw_fd(), libc::LOCK_UN) };
        Some(true)
    } else {
        Some(false)
    }
}

/// Number of threads of this process named `fjall:worker`.
pub fn worker_threads() -> usize {
    let mut n = 0;
    if let Ok(rd) = std::fs::read_dir("/proc/self/task") {
        for e in rd.flatten() {
            if let Ok(c) = std::fs::read_to_string(e.path().join("comm")) {
                if c.trim() == "fjall:worker" {
                    n += 1;
                }
            }
        }
    }
    n
}

/// Waits (bounded) until no worker thread is left; returns the number still there.
pub fn wait_workers_gone(ms: u64) -> usize {
    let end = Instant::now() + Duration::from_millis(ms);
    loop {
        let n = worker_threads();
        if n == 0 || Instant::now() >= end {
            return n;
        }
        std::thread::sleep(Duration::from_millis(2));
    }
}

/// Digest of a directory tree: relative path -> (length, content hash); the lock file's
/// content and timestamps do not matter.
pub fn dir_digest(dir: &Path) -> BTreeMap<String, (u64, u64)> {
    fn walk(base: &Path, p: &Path, out: &mut BTreeMap<String, (u64, u64)>) {
        let Ok(rd) = std::fs::read_dir(p) else { return };
        for e in rd.flatten() {
            let path = e.path();
            let rel = path.strip_prefix(base).unwrap().to_string_lossy().to_string();
            if path.is_dir() {
                out.insert(rel + "/", (0, 0));
                walk(base, &path, out);
            } else {
                // data extents only (the preallocated journal tail is a hole)
                use std::io::{Read, Seek, SeekFrom};
                let mut h: u64 = 0xcbf2_9ce4_8422_2325;
                let mut len = 0u64;
                if let Ok(mut f) = std::fs::File::open(&path) {
                    len = f.metadata().map(|m| m.len()).unwrap_or(0);
                    let fd = f.as_raw_fd();
                    let mut pos: i64 = 0;
                    let mut buf = vec![0u8; 1 << 16];
                    while (pos as u64) < len {
                        let data = unsafe { libc::lseek(fd, pos, libc::SEEK_DATA) };
                        if data < 0 {
                            break;
                        }
                        let hole = unsafe { libc::lseek(fd, data, libc::SEEK_HOLE) };
                        let end = if hole < 0 { len as i64 } else { hole };
                        let _ = f.seek(SeekFrom::Start(data as u64));
                        let mut left = (end - data) as usize;
                        h ^= data as u64;
                        h = h.wrapping_mul(0x0100_0000_01b3);
                        while left > 0 {
                            let n = f.read(&mut buf[..left.min(1 << 16)]).unwrap_or(0);
                            if n == 0 {
                                break;
                            }
                            for b in &buf[..n] {
                                h ^= u64::from(*b);
                                h = h.wrapping_mul(0x0100_0000_01b3);
                            }
                            left -= n;
                        }
                        pos = end;
                    }
                }
                out.insert(rel, (len, h));
            }
        }
    }
    let mut out = BTreeMap::new();
    walk(dir, dir, &mut out);
    out
}

fn open_class(r: &Result<Database, fjall::Error>) -> String {
    match r {
        Ok(_) => "ok".into(),
        Err(fjall::Error::Locked) => "locked".into(),
        Err(fjall::Error::InvalidVersion(_)) => "invalid_version".into(),
        Err(fjall::Error::Io(_)) => "io_error".into(),
        Err(e) => format!("other:{e:?}"),
    }
}

fn events() -> Vec<Value> {
    fjall::verif::trace_take().iter().filter_map(|l| serde_json::from_str(l).ok()).collect()
}

fn ev_names(evs: &[Value]) -> Vec<String> {
    evs.iter().map(|e| e["ev"].as_str().unwrap_or("").to_string()).collect()
}

/// Runs `f` on another thread; None if it does not return within `ms`.
fn with_watchdog<T: Send + 'static>(ms: u64, f: impl FnOnce() -> T + Send + 'static) -> Option<T> {
    let (tx, rx) = std::sync::mpsc::channel();
    std::thread::spawn(move || {
        let r = f();
        let _ = tx.send(r);
    });
    rx.recv_timeout(Duration::from_millis(ms)).ok()
}

// ---------------------------------------------------------------------------------------------
// forced schedules
// ---------------------------------------------------------------------------------------------

/// A worker is parked at `site` on its way out ("WorkerRel": it has released its clone of the
/// supervisor - i.e. of the journal - but is not yet counted as stopped; "WorkerDec": it has
/// been counted as stopped).  What is the state of lock / journal when Drop for DatabaseInner
/// returns?
pub fn forced_worker_exit(root: &Path, site: &str) -> Value {
    let dir = util::fresh_dir(root, "life_wexit");
    fjall::verif::disarm_all();
    fjall::verif::trace_start();
    let db = match Database::builder(&dir).worker_threads_unchecked(1).open() {
        Ok(d) => d,
        Err(e) => return json!({"error": format!("open: {e:?}")}),
    };
    let ks = db.keyspace("a", KeyspaceCreateOptions::default).unwrap();
    ks.insert("k", "v").unwrap();
    drop(ks);
    fjall::verif::arm(site, 0, 0);
    let (tx, rx) = std::sync::mpsc::channel();
    std::thread::spawn(move || {
        drop(db);
        let _ = tx.send(());
    });
    let parked = fjall::verif::wait_parked(site, 3000).is_some();
    // does the drop return while the worker is parked?
    let returned_while_parked = rx.recv_timeout(Duration::from_millis(300)).is_ok();
    let lock_free = lock_is_free(&dir);
    let evs_before = ev_names(&events());
    let journal_dropped_before = evs_before.iter().any(|e| e == "JournalDropped");
    let unlocked_before = evs_before.iter().any(|e| e == "Unlock");
    let second_open = if lock_free == Some(true) {
        let r = Database::builder(&dir).worker_threads_unchecked(0).open();
        let c = open_class(&r);
        drop(r);
        c
    } else {
        "not tried".into()
    };
    fjall::verif::disarm_all();
    let returned = returned_while_parked || rx.recv_timeout(Duration::from_millis(5000)).is_ok();
    let left = wait_workers_gone(3000);
    let lock_free_end = lock_is_free(&dir);
    fjall::verif::trace_stop();
    let mut all = evs_before.clone();
    all.extend(ev_names(&events()));
    // order of the first instance's journal drop and unlock
    let jd = all.iter().position(|e| e == "JournalDropped");
    let ul = all.iter().position(|e| e == "Unlock");
    let _ = std::fs::remove_dir_all(&dir);
    json!({
        "scenario": format!("worker parked at {site}; last Database handle dropped on another thread"),
        "worker_parked": parked,
        "while_parked": {"drop_returned": returned_while_parked, "lock_free": lock_free,
                         "journal_dropped": journal_dropped_before, "unlocked": unlocked_before,
                         "second_open": second_open},
        "drop_returned": returned, "workers_left_at_end": left, "lock_free_at_end": lock_free_end,
        "journal_dropped_before_unlock": matches!((jd, ul), (Some(a), Some(b)) if a < b),
        "events": all,
    })
}

/// A flush fails inside the worker (the keyspace's table folder was removed): the worker thread
/// ends with Err.  Does the drop of the last handle return?
pub fn forced_worker_fail(root: &Path) -> Value {
    let dir = util::fresh_dir(root, "life_wfail");
    fjall::verif::disarm_all();
    fjall::verif::trace_start();
    let db = match Database::builder(&dir).worker_threads_unchecked(1).open() {
        Ok(d) => d,
        Err(e) => return json!({"error": format!("open: {e:?}")}),
    };
    let ks = db.keyspace("a", KeyspaceCreateOptions::default).unwrap();
    ks.insert("k", "v").unwrap();
    let tables = ks.path().join("tables");
    let _ = std::fs::remove_dir_all(&tables);
    let _ = ks.rotate_memtable();
    // wait for the worker to fail
    let end = Instant::now() + Duration::from_millis(3000);
    let mut failed = false;
    while Instant::now() < end {
        if db.verif_is_poisoned() {
            failed = true;
            break;
        }
        std::thread::sleep(Duration::from_millis(5));
    }
    let ctr = db.verif_worker_threads_alive();
    drop(ks);
    let returned = with_watchdog(4000, move || drop(db)).is_some();
    let lock_free = lock_is_free(&dir);
    fjall::verif::trace_stop();
    let evs = ev_names(&events());
    // the directory is left behind on purpose if the drop hangs (the thread still uses it)
    if returned {
        let _ = std::fs::remove_dir_all(&dir);
    }
    json!({
        "scenario": "flush fails in the only worker thread (worker ends with Err); last handles dropped",
        "worker_failed": failed, "thread_counter_after_failure": ctr,
        "drop_returned": returned, "lock_free_after_drop": lock_free, "events": evs,
    })
}

/// The thread running Drop for DatabaseInner is parked after its final drain of the worker queue;
/// another thread sends a message through a keyspace handle (what Ingestion::finish does), then
/// drops the handle.  Is the lock released?
pub fn forced_stranded_message(root: &Path) -> Value {
    let dir = util::fresh_dir(root, "life_strand");
    fjall::verif::disarm_all();
    fjall::verif::trace_start();
    let db = match Database::builder(&dir).worker_threads_unchecked(1).open() {
        Ok(d) => d,
        Err(e) => return json!({"error": format!("open: {e:?}")}),
    };
    let ks = db.keyspace("a", KeyspaceCreateOptions::default).unwrap();
    ks.insert("k", "v").unwrap();
    fjall::verif::arm("DbDropDrain2", 0, 0);
    let h = std::thread::spawn(move || drop(db));
    let parked = fjall::verif::wait_parked("DbDropDrain2", 3000).is_some();
    ks.verif_request_compaction();
    fjall::verif::disarm_all();
    let joined = with_watchdog(4000, move || h.join().is_ok()).unwrap_or(false);
    drop(ks);
    std::thread::sleep(Duration::from_millis(50));
    let lock_free = lock_is_free(&dir);
    let reopen = {
        let r = Database::builder(&dir).worker_threads_unchecked(0).open();
        let c = open_class(&r);
        drop(r);
        c
    };
    fjall::verif::trace_stop();
    let evs = ev_names(&events());
    let _ = std::fs::remove_dir_all(&dir);
    json!({
        "scenario": "message with a Keyspace clone sent between the final drain of Drop for DatabaseInner and the drop of the receiver; then the last keyspace handle is dropped",
        "drop_thread_parked": parked, "drop_returned": joined,
        "lock_free_after_all_handles_dropped": lock_free, "reopen": reopen,
        "journal_dropped": evs.iter().any(|e| e == "JournalDropped"),
        "ks_inner_dropped": evs.iter().any(|e| e == "KsInnerDrop"),
        "events": evs,
    })
}

/// An existing database directory (journal 0 already evicted) whose version marker is missing.
pub fn forced_absent_marker(root: &Path) -> Value {
    let dir = util::fresh_dir(root, "life_nomarker");
    {
        let db = Database::builder(&dir).worker_threads_unchecked(0).open().unwrap();
        let a = db.keyspace("a", KeyspaceCreateOptions::default).unwrap();
        a.insert("k", "v1").unwrap();
        fjall::verif::set_force_journal_rotation(true);
        a.rotate_memtable().unwrap();
        while let Ok(Some(_)) = db.verif_step(0) {}
        fjall::verif::set_force_journal_rotation(false);
        a.insert("k2", "v2").unwrap();
        db.persist(PersistMode::SyncAll).unwrap();
    }
    let with_jnl0 = dir.join("0.jnl").exists();
    std::fs::remove_file(dir.join("version")).unwrap();
    let before = dir_digest(&dir);
    let r = Database::builder(&dir).worker_threads_unchecked(0).open();
    let class = open_class(&r);
    let names = r.as_ref().map(|db| db.list_keyspace_names().len()).unwrap_or(0);
    drop(r);
    let after = dir_digest(&dir);
    let changed: Vec<String> = after
        .iter()
        .filter(|(k, v)| before.get(*k) != Some(v))
        .map(|(k, _)| k.clone())
        .chain(before.keys().filter(|k| !after.contains_key(*k)).map(|k| format!("-{k}")))
        .collect();
    let _ = std::fs::remove_dir_all(&dir);
    json!({
        "scenario": "existing database (0.jnl evicted by a journal rotation) with the version marker removed, opened again",
        "jnl0_present": with_jnl0, "open": class, "keyspaces_listed": names, "changed_paths": changed,
    })
}

// ---------------------------------------------------------------------------------------------
// replay of TLC-chosen client-level behaviours (MC_LifeSim)
// ---------------------------------------------------------------------------------------------

pub struct LifeReplayArgs {
    pub file: PathBuf,
    pub out_dir: PathBuf,
    pub seed: u64,
}

fn marker_bytes(class: &str, salt: u64) -> Option<Vec<u8>> {
    Some(match class {
        "none" => return None,
        "short" => match salt % 4 { 0 => vec![], 1 => b"F".to_vec(), 2 => b"FJ".to_vec(), _ => b"FJL".to_vec() },
        "badmagic" => match salt % 3 { 0 => b"LSM\x03".to_vec(), 1 => b"fjl\x03".to_vec(), _ => vec![0, 0, 0, 3] },
        "v1" => b"FJL\x01".to_vec(),
        "v2" => b"FJL\x02".to_vec(),
        "v3" => b"FJL\x03".to_vec(),
        "v3x" => b"FJL\x03trailing bytes".to_vec(),
        "future" => match salt % 3 { 0 => b"FJL\x04".to_vec(), 1 => b"FJL\xff".to_vec(), _ => b"FJL\x00".to_vec() },
        _ => return None,
    })
}

struct Slot {
    dbs: Vec<H>,
    kss: Vec<H>,
    addr: u64,
    /// latched observations (instance addresses are reused by the allocator, so they are
    /// attributed to the newest instance opened at that address when the event was logged)
    journal_dropped: bool,
    ks_dropped: bool,
}

/// Executes one behaviour; returns Err(description of the first divergence).
fn replay_one(beh: &[Value], dir: &Path, seed: u64, steps: &mut u64) -> Result<(), (usize, String)> {
    let mut slots: BTreeMap<u64, Slot> = BTreeMap::new(); // model instance number -> handles
    let mut attempts: u64 = 0;
    let mut last_res = String::from("-");
    let mut last_changed: Vec<String> = Vec::new();
    let mut by_obj: std::collections::HashMap<u64, u64> = Default::default(); // journal address -> instance address
    let mut cur: std::collections::HashMap<u64, u64> = Default::default(); // instance address -> attempt number of its newest incarnation
    let workers = 2usize;
    fjall::verif::trace_start();
    crate::adv::start(dir, None, false, false, None);
    let finish = |r: Result<(), (usize, String)>| {
        let _ = crate::adv::stop();
        fjall::verif::trace_stop();
        r
    };
    for (si, step) in beh.iter().enumerate() {
        *steps += 1;
        // ---- observables of the quiescent state the previous steps led to
        let obs = &step["obs"];
        let want_free = obs["flock"].as_u64() == Some(0);
        // settle: background threads finish what the last step started
        let want_workers: u64 = obs["insts"].as_array().map(|a| a.iter().map(|x| x["workers"].as_u64().unwrap_or(0)).sum()).unwrap_or(0);
        let end = Instant::now() + Duration::from_millis(4000);
        loop {
            let free = if dir.join("lock").exists() { lock_is_free(dir).unwrap_or(true) } else { true };
            if (free == want_free && worker_threads() as u64 == want_workers) || Instant::now() >= end {
                break;
            }
            std::thread::sleep(Duration::from_millis(2));
        }
        for e in events() {
            match e["ev"].as_str().unwrap_or("") {
                "InstOpened" => {
                    let a = e["inst"].as_u64().unwrap_or(0);
                    by_obj.insert(e["journal"].as_u64().unwrap_or(0), a);
                    // the newest slot opened at this address
                    if let Some((n, _)) = slots.iter().filter(|(_, s)| s.addr == a).max_by_key(|(n, _)| **n) {
                        cur.insert(a, *n);
                    }
                }
                "JournalDropped" => {
                    if let Some(n) = by_obj.get(&e["obj"].as_u64().unwrap_or(0)).and_then(|a| cur.get(a)) {
                        if let Some(s) = slots.get_mut(n) {
                            s.journal_dropped = true;
                        }
                    }
                }
                "KsInnerDrop" => {
                    if let Some(n) = cur.get(&e["inst"].as_u64().unwrap_or(0)) {
                        if let Some(s) = slots.get_mut(n) {
                            s.ks_dropped = true;
                        }
                    }
                }
                _ => {}
            }
        }
        let free = if dir.join("lock").exists() { lock_is_free(dir).unwrap_or(true) } else { true };
        if free != want_free {
            return finish(Err((si, format!("lock is {} but the specification says {} (flock = {})", if free { "free" } else { "held" }, if want_free { "free" } else { "held" }, obs["flock"]))));
        }
        let wt = worker_threads() as u64;
        if wt != want_workers {
            return finish(Err((si, format!("{wt} worker thread(s) alive, the specification says {want_workers}"))));
        }
        if obs["last"]["n"].as_u64().unwrap_or(0) > 0 {
            let want = obs["last"]["res"].as_str().unwrap_or("-");
            if want != last_res {
                return finish(Err((si, format!("open attempt {} returned {last_res}, the specification says {want}", obs["last"]["n"]))));
            }
            if want != "ok" && !last_changed.is_empty() {
                return finish(Err((si, format!("refused open ({want}) changed the directory: {last_changed:?}"))));
            }
        }
        if let Some(insts) = obs["insts"].as_array() {
            for (k, io) in insts.iter().enumerate() {
                let Some(slot) = slots.get(&(k as u64 + 1)) else { continue };
                let jd = slot.journal_dropped;
                match io["journal"].as_str().unwrap_or("") {
                    "dropped" if !jd => return finish(Err((si, format!("instance {}: the journal was not dropped (synced), the specification says it is", k + 1)))),
                    "open" if jd => return finish(Err((si, format!("instance {}: the journal was dropped while the specification says it is open", k + 1)))),
                    _ => {}
                }
                let kd = slot.ks_dropped;
                match io["ks"].as_str().unwrap_or("") {
                    "gone" if !kd => return finish(Err((si, format!("instance {}: the keyspace was not dropped, the specification says it is gone", k + 1)))),
                    "alive" if kd => return finish(Err((si, format!("instance {}: the keyspace was dropped while the specification says it is alive", k + 1)))),
                    _ => {}
                }
            }
        }
        // every journal byte written by an instance whose journal was dropped is covered by a sync
        // (checked at the end, from the adversary's record)
        // ---- the step
        let i = step["i"].as_u64().unwrap_or(0);
        match step["a"].as_str().unwrap_or("") {
            "End" => break,
            "Open" => {
                attempts += 1;
                // the directory digest is only comparable if no live instance has background
                // work in flight (this thread is the only client)
                let mut settled = true;
                for s in slots.values() {
                    if let Some(db) = s.dbs.first().and_then(H::database) {
                        let end = Instant::now() + Duration::from_millis(3000);
                        while !(db.verif_pending().is_empty() && db.active_compactions() == 0 && db.outstanding_flushes() == 0) {
                            if Instant::now() >= end {
                                settled = false;
                                break;
                            }
                            std::thread::sleep(Duration::from_millis(2));
                        }
                        // (a worker that just took a message is not yet counted as compacting)
                        std::thread::sleep(Duration::from_millis(20));
                        if !(db.verif_pending().is_empty() && db.active_compactions() == 0 && db.outstanding_flushes() == 0) {
                            settled = false;
                        }
                    }
                }
                let diff = |before: &BTreeMap<String, (u64, u64)>, after: &BTreeMap<String, (u64, u64)>| -> Vec<String> {
                    after.iter().filter(|(k, v)| before.get(*k) != Some(v)).map(|(k, _)| k.clone())
                        .chain(before.keys().filter(|k| !after.contains_key(*k)).map(|k| format!("-{k}"))).collect()
                };
                let before = dir_digest(dir);
                let existed = dir.exists();
                let (class, h) = try_open(dir, 60, seed.wrapping_add(attempts), workers);
                last_res = class.clone();
                let after = dir_digest(dir);
                last_changed = if class == "ok" || !existed || !settled { Vec::new() } else { diff(&before, &after) };
                // a change made by the refused attempt itself is deterministic; one made by a
                // worker of the live instance that was slow to pick up its message is not:
                // the refused attempt is repeated and must change the directory every time
                let mut again = 0;
                while !last_changed.is_empty() && again < 2 {
                    again += 1;
                    std::thread::sleep(Duration::from_millis(300));
                    let b2 = dir_digest(dir);
                    let r2 = Database::builder(dir).worker_threads_unchecked(0).open();
                    let c2 = open_class(&r2);
                    drop(r2);
                    let a2 = dir_digest(dir);
                    if c2 == "ok" || diff(&b2, &a2).is_empty() {
                        last_changed.clear();
                    }
                }
                if let Some(h) = h {
                    let addr = h.inst();
                    slots.insert(attempts, Slot { dbs: vec![h], kss: Vec::new(), addr, journal_dropped: false, ks_dropped: false });
                }
            }
            "SetMarker" => {
                let p = dir.join("version");
                match marker_bytes(step["m"].as_str().unwrap_or(""), seed.wrapping_add(si as u64)) {
                    None => {
                        let _ = std::fs::remove_file(&p);
                    }
                    Some(b) => {
                        let _ = std::fs::write(&p, b);
                    }
                }
            }
            a => {
                let Some(slot) = slots.get_mut(&i) else {
                    return finish(Err((si, format!("behaviour refers to instance {i} which was never opened here"))));
                };
                match a {
                    "CloneDb" => {
                        let c = slot.dbs[0].dup();
                        slot.dbs.push(c);
                    }
                    "DropDb" => {
                        let h = slot.dbs.pop();
                        // (the drop of the last handle runs Drop for DatabaseInner: watched)
                        if with_watchdog(20_000, move || drop(h)).is_none() {
                            return finish(Err((si, "dropping a Database handle did not return (watchdog 20 s)".into())));
                        }
                    }
                    "OpenKs" => {
                        let k = match &slot.dbs[0] {
                            H::ODb(o) => o.keyspace("a", KeyspaceCreateOptions::default).map(|k| H::Ks(k.inner().clone())),
                            h => h.database().unwrap().keyspace("a", KeyspaceCreateOptions::default).map(H::Ks),
                        };
                        match k {
                            Ok(k) => slot.kss.push(k),
                            Err(e) => return finish(Err((si, format!("keyspace(): {e:?}")))),
                        }
                    }
                    "CloneKs" => {
                        let c = slot.kss[0].dup();
                        slot.kss.push(c);
                    }
                    "DropKs" => {
                        let h = slot.kss.pop();
                        if with_watchdog(20_000, move || drop(h)).is_none() {
                            return finish(Err((si, "dropping a Keyspace handle did not return (watchdog 20 s)".into())));
                        }
                    }
                    "Write" => {
                        if let Some(k) = slot.kss.first().and_then(H::keyspace) {
                            let _ = k.insert(format!("k{si}").as_bytes(), b"value");
                        } else if step["obs"]["insts"][(i - 1) as usize]["ks"] == "alive" {
                            if let Some(db) = slot.dbs.first().and_then(H::database) {
                                if let Ok(k) = db.keyspace("a", KeyspaceCreateOptions::default) {
                                    let _ = k.insert(format!("k{si}").as_bytes(), b"value");
                                }
                            }
                        }
                    }
                    "Sync" => {
                        if let Some(db) = slot.dbs.first().and_then(H::database) {
                            let _ = db.persist(PersistMode::SyncAll);
                        }
                    }
                    "KsSend" => {
                        if let Some(k) = slot.kss.first().and_then(H::keyspace) {
                            if si % 2 == 0 {
                                k.verif_request_compaction();
                            } else if let Ok(mut ing) = k.start_ingestion() {
                                let _ = ing.write(format!("z{si}").as_bytes(), b"i");
                                let _ = ing.finish();
                            }
                        }
                    }
                    other => return finish(Err((si, format!("unknown action {other}")))),
                }
            }
        }
    }
    // every handle that is left goes; then the journal files must be fully synced
    let rest: Vec<H> = slots.into_values().flat_map(|s| s.kss.into_iter().chain(s.dbs)).collect();
    if with_watchdog(20_000, move || drop(rest)).is_none() {
        return finish(Err((beh.len(), "dropping the remaining handles did not return (watchdog 20 s)".into())));
    }
    wait_workers_gone(3000);
    let ctl = crate::adv::stop();
    fjall::verif::trace_stop();
    if let Some(ctl) = ctl {
        let mut last_write: BTreeMap<String, u64> = BTreeMap::new();
        let mut last_sync: BTreeMap<String, u64> = BTreeMap::new();
        for e in &ctl.log {
            if !e.path.ends_with(".jnl") || e.ret < 0 {
                continue;
            }
            match e.op {
                "write" | "pwrite" | "writev" => {
                    last_write.insert(e.path.clone(), e.n);
                }
                "fsync" | "fdatasync" => {
                    last_sync.insert(e.path.clone(), e.n);
                }
                "unlink" | "unlinkat" => {
                    last_write.remove(&e.path);
                }
                _ => {}
            }
        }
        for (p, w) in &last_write {
            if last_sync.get(p).copied().unwrap_or(0) < *w {
                return Err((beh.len(), format!("after every handle was dropped, journal {p} has written bytes that no fsync covers (last write = call {w}, last sync = call {:?})", last_sync.get(p))));
            }
        }
    }
    if dir.join("lock").exists() && lock_is_free(dir) != Some(true) {
        return Err((beh.len(), "the lock is still held after every handle was dropped".into()));
    }
    Ok(())
}

pub fn run_life_replay(args: &LifeReplayArgs) -> Outcome {
    let mut out = Outcome::default();
    let root = util::scratch_root();
    let text = std::fs::read_to_string(&args.file).unwrap_or_default();
    fjall::verif::disarm_all();
    for (bi, line) in text.lines().enumerate() {
        let Ok(beh) = serde_json::from_str::<Vec<Value>>(line) else { continue };
        let dir = util::fresh_dir(&root, &format!("life{bi}"));
        let mut steps = 0u64;
        let r = replay_one(&beh, &dir, args.seed.wrapping_add(bi as u64), &mut steps);
        out.behaviours += 1;
        out.steps += steps;
        let acts: Vec<String> = beh.iter().map(|s| format!("{}{}", s["a"].as_str().unwrap_or(""), s["i"])).collect();
        out.distinct.insert(util::hash_str(&acts.join(",")));
        if bi == 0 {
            out.samples.push(json!({"behaviour": acts.join(" "), "steps": steps}));
        }
        if let Err((si, why)) = r {
            let p = args.out_dir.join(format!("cex_C17_life_{bi}.json"));
            let _ = std::fs::write(&p, serde_json::to_string_pretty(&json!({"kind": "life-replay", "seed": args.seed.wrapping_add(bi as u64), "step": si, "why": why, "actions": acts, "behaviour": beh})).unwrap());
            out.violations.push(json!({"step": si, "first": why, "replay": p.to_string_lossy()}));
            if why.contains("watchdog") {
                break; // a stuck thread is left behind
            }
        }
        let _ = std::fs::remove_dir_all(&dir);
    }
    let _ = std::fs::remove_dir_all(&root);
    out
}

/// The only worker is parked right before it announces a flush task with its blocking
/// send(Flush); meanwhile the queue is filled to capacity; released, the worker blocks in that
/// send.  Does the drop of the last handle return?
pub fn forced_worker_blocked_in_send(root: &Path) -> Value {
    let dir = util::fresh_dir(root, "life_wsend");
    fjall::verif::disarm_all();
    fjall::verif::trace_start();
    let db = match Database::builder(&dir).worker_threads_unchecked(1).open() {
        Ok(d) => d,
        Err(e) => return json!({"error": format!("open: {e:?}")}),
    };
    let ks = db.keyspace("a", || KeyspaceCreateOptions::default().max_memtable_size(500)).unwrap();
    fjall::verif::arm("RotSendFlush", 0, 0);
    // over the memtable limit: a rotation is requested and executed by the worker
    for i in 0..20 {
        ks.insert(format!("k{i}").as_bytes(), vec![b'v'; 100]).unwrap();
    }
    let parked = fjall::verif::wait_parked("RotSendFlush", 5000).is_some();
    // fill the queue (capacity 1000) with compaction requests
    for _ in 0..1100 {
        ks.verif_request_compaction();
    }
    fjall::verif::disarm_all();
    std::thread::sleep(Duration::from_millis(200)); // the worker is inside send(Flush) now
    drop(ks);
    let returned = with_watchdog(8000, move || drop(db)).is_some();
    let lock_free = lock_is_free(&dir);
    fjall::verif::trace_stop();
    let evs = ev_names(&events());
    if returned {
        let _ = std::fs::remove_dir_all(&dir);
    }
    json!({
        "scenario": "the only worker is blocked in its blocking send(Flush) on the full queue when the last handle is dropped",
        "worker_parked_before_send": parked, "drop_returned": returned, "lock_free_after_drop": lock_free,
        "events": evs.into_iter().filter(|e| e.starts_with("DbDrop") || e.starts_with("Worker") || e == "Unlock" || e == "JournalDropped").collect::<Vec<_>>(),
    })
}

pub fn run_forced(which: &str) -> Value {
    let root = util::scratch_root();
    let r = match which {
        "worker-rel" => forced_worker_exit(&root, "WorkerRel"),
        "worker-dec" => forced_worker_exit(&root, "WorkerDec"),
        "worker-fail" => forced_worker_fail(&root),
        "stranded" => forced_stranded_message(&root),
        "worker-send" => forced_worker_blocked_in_send(&root),
        "absent-marker" => forced_absent_marker(&root),
        _ => json!({"error": "unknown scenario"}),
    };
    let _ = std::fs::remove_dir_all(&root);
    r
}

// ---------------------------------------------------------------------------------------------
// multi-threaded handle churn, recorded for trace validation (Life_Trace)
// ---------------------------------------------------------------------------------------------

pub struct LifeMtArgs {
    pub out_dir: PathBuf,
    pub seed: u64,
    pub runs: u64,
    pub threads: u64,
    pub ops: u64,
}

enum H {
    Db(Database),
    ODb(fjall::OptimisticTxDatabase),
    SDb(fjall::SingleWriterTxDatabase),
    Ks(fjall::Keyspace),
    OKs(fjall::OptimisticTxKeyspace),
}

impl H {
    fn inst(&self) -> u64 {
        match self {
            H::Db(d) => d.verif_instance(),
            H::ODb(d) => d.inner().verif_instance(),
            H::SDb(d) => d.inner().verif_instance(),
            H::Ks(k) => k.verif_instance(),
            H::OKs(k) => k.inner().verif_instance(),
        }
    }
    /// events that account for the references this handle holds
    fn kinds(&self) -> &'static [&'static str] {
        match self {
            H::Db(_) | H::ODb(_) | H::SDb(_) => &["Db"],
            H::Ks(_) => &["Ks"],
            H::OKs(_) => &["Db", "Ks"],
        }
    }
    fn dup(&self) -> H {
        match self {
            H::Db(d) => H::Db(d.clone()),
            H::ODb(d) => H::ODb(d.clone()),
            H::SDb(d) => H::SDb(d.clone()),
            H::Ks(k) => H::Ks(k.clone()),
            H::OKs(k) => H::OKs(k.clone()),
        }
    }
    fn database(&self) -> Option<&Database> {
        match self {
            H::Db(d) => Some(d),
            H::ODb(d) => Some(d.inner()),
            H::SDb(d) => Some(d.inner()),
            _ => None,
        }
    }
    fn keyspace(&self) -> Option<&fjall::Keyspace> {
        match self {
            H::Ks(k) => Some(k),
            H::OKs(k) => Some(k.inner()),
            _ => None,
        }
    }
}

fn hev(ev: &str, inst: u64) {
    fjall::verif::emit(ev, &[("inst", fjall::verif::F::U(inst))]);
}

/// Clone under the pool lock (the source is alive while the lock is held), logged afterwards.
fn clone_logged(h: &H) -> H {
    let c = h.dup();
    for k in h.kinds() {
        hev(&format!("Clone{k}"), h.inst());
    }
    c
}

/// Logged before the handle goes.
fn drop_logged(h: H) {
    for k in h.kinds() {
        hev(&format!("Drop{k}"), h.inst());
    }
    drop(h);
}

fn try_open(dir: &Path, t: u64, kind: u64, workers: usize) -> (String, Option<H>) {
    fjall::verif::emit(
        "OpenCall",
        &[("t", fjall::verif::F::U(t)), ("workers", fjall::verif::F::U(workers as u64))],
    );
    let (class, h) = match kind % 3 {
        0 => {
            let r = Database::builder(dir).worker_threads_unchecked(workers).open();
            (open_class(&r), r.ok().map(H::Db))
        }
        1 => {
            let r = fjall::OptimisticTxDatabase::builder(dir).worker_threads_unchecked(workers).open();
            let c = match &r {
                Ok(_) => "ok".to_string(),
                Err(fjall::Error::Locked) => "locked".into(),
                Err(fjall::Error::InvalidVersion(_)) => "invalid_version".into(),
                Err(fjall::Error::Io(_)) => "io_error".into(),
                Err(e) => format!("other:{e:?}"),
            };
            (c, r.ok().map(H::ODb))
        }
        _ => {
            let r = fjall::SingleWriterTxDatabase::builder(dir).worker_threads_unchecked(workers).open();
            let c = match &r {
                Ok(_) => "ok".to_string(),
                Err(fjall::Error::Locked) => "locked".into(),
                Err(fjall::Error::InvalidVersion(_)) => "invalid_version".into(),
                Err(fjall::Error::Io(_)) => "io_error".into(),
                Err(e) => format!("other:{e:?}"),
            };
            (c, r.ok().map(H::SDb))
        }
    };
    fjall::verif::emit(
        "OpenRet",
        &[("t", fjall::verif::F::U(t)), ("res", fjall::verif::F::S(&class))],
    );
    (class, h)
}

/// Renames instance / journal / lock addresses to small per-segment instance numbers.
fn rename_instances(lines: Vec<String>) -> Vec<String> {
    let mut out = Vec::with_capacity(lines.len());
    let mut by_sup: std::collections::HashMap<u64, u64> = Default::default();
    let mut by_obj: std::collections::HashMap<u64, u64> = Default::default();
    let mut next = 0u64;
    for l in lines {
        let Ok(mut v) = serde_json::from_str::<Value>(&l) else { continue };
        let ev = v["ev"].as_str().unwrap_or("").to_string();
        const KEEP: &[&str] = &["Reset", "SetMarker", "OpenCall", "OpenRet", "InstOpened", "CloneDb", "DropDb", "OpenKs",
            "CloneKs", "DropKs", "Write", "KsSend", "Note", "DbDropBegin", "DbDropDrain1", "DbDropWorkersStopped",
            "DbDropDrain2", "DbDropCleared", "KsInnerDrop", "WorkerFail", "WorkerRel", "WorkerDec", "JournalDropped",
            "Unlock", "Unlocked"];
        if !KEEP.contains(&ev.as_str()) {
            continue;
        }
        match ev.as_str() {
            "Reset" => {
                by_sup.clear();
                by_obj.clear();
                next = 0;
            }
            "InstOpened" => {
                next += 1;
                by_sup.insert(v["inst"].as_u64().unwrap_or(0), next);
                by_obj.insert(v["journal"].as_u64().unwrap_or(0), next);
                by_obj.insert(v["lock"].as_u64().unwrap_or(1), next);
                v["inst"] = json!(next);
                // the pool size of the instance is what the opening thread asked for
                v.as_object_mut().unwrap().remove("journal");
                v.as_object_mut().unwrap().remove("lock");
            }
            "JournalDropped" | "Unlock" | "Unlocked" => {
                let id = by_obj.get(&v["obj"].as_u64().unwrap_or(0)).copied().unwrap_or(0);
                v["inst"] = json!(id);
                v.as_object_mut().unwrap().remove("obj");
            }
            _ => {
                if let Some(a) = v.get("inst").and_then(Value::as_u64) {
                    v["inst"] = json!(by_sup.get(&a).copied().unwrap_or(0));
                }
            }
        }
        out.push(v.to_string());
    }
    out
}

/// InstOpened does not know the pool size: it is the `workers` of the OpenCall of the same thread.
fn attach_workers(lines: Vec<String>) -> Vec<String> {
    let mut pend: std::collections::HashMap<u64, u64> = Default::default(); // tracer thread tag -> workers
    let mut out = Vec::with_capacity(lines.len());
    for l in lines {
        let Ok(mut v) = serde_json::from_str::<Value>(&l) else { continue };
        let tag = v["t"].as_u64().unwrap_or(0);
        match v["ev"].as_str().unwrap_or("") {
            "OpenCall" => {
                pend.insert(tag, v["workers"].as_u64().unwrap_or(0));
            }
            "InstOpened" => {
                v["workers"] = json!(pend.get(&tag).copied().unwrap_or(0));
            }
            _ => {}
        }
        out.push(v.to_string());
    }
    out
}

pub fn run_life_mt(args: &LifeMtArgs) -> Outcome {
    use rand::{rngs::StdRng, Rng, SeedableRng};
    use std::sync::{Arc, Mutex};
    let mut out = Outcome::default();
    let root = util::scratch_root();
    fjall::verif::disarm_all();
    fjall::verif::trace_start();
    let mut all_lines: Vec<String> = Vec::new();
    for run in 0..args.runs {
        let mut rng = StdRng::seed_from_u64(args.seed.wrapping_mul(7919).wrapping_add(run));
        let dir = util::fresh_dir(&root, &format!("lifemt{run}"));
        let workers = rng.gen_range(0..=3usize);
        fjall::verif::set_thread_tag(60);
        fjall::verif::emit("Reset", &[("workers", fjall::verif::F::U(workers as u64))]);
        let pool: Arc<Mutex<Vec<H>>> = Arc::new(Mutex::new(Vec::new()));
        let opened = Arc::new(std::sync::atomic::AtomicU64::new(0));
        let problems: Arc<Mutex<Vec<String>>> = Arc::new(Mutex::new(Vec::new()));
        let mut joins = Vec::new();
        for t in 1..=args.threads {
            let pool = pool.clone();
            let opened = opened.clone();
            let problems = problems.clone();
            let dir = dir.clone();
            let seed = args.seed.wrapping_mul(31).wrapping_add(run * 131 + t);
            let ops = args.ops;
            joins.push(std::thread::spawn(move || {
                fjall::verif::set_thread_tag(t);
                let mut rng = StdRng::seed_from_u64(seed);
                for opn in 0..ops {
                    let roll = rng.gen_range(0..100);
                    let have = pool.lock().unwrap().len();
                    if have == 0 || roll < 12 {
                        // open attempt (at most 7 instances per segment)
                        if opened.load(std::sync::atomic::Ordering::SeqCst) >= 7 {
                            continue;
                        }
                        let (class, h) = try_open(&dir, t, rng.gen_range(0..3), workers);
                        if let Some(h) = h {
                            opened.fetch_add(1, std::sync::atomic::Ordering::SeqCst);
                            pool.lock().unwrap().push(h);
                        } else if class.starts_with("other") {
                            problems.lock().unwrap().push(format!("open: {class}"));
                        } else {
                            std::thread::sleep(Duration::from_millis(1));
                        }
                        continue;
                    }
                    if roll < 40 {
                        // drop a random handle
                        let h = {
                            let mut g = pool.lock().unwrap();
                            if g.is_empty() { None } else { let i = rng.gen_range(0..g.len()); Some(g.swap_remove(i)) }
                        };
                        if let Some(h) = h {
                            drop_logged(h);
                        }
                        continue;
                    }
                    // work on a private clone of a random handle
                    let mine = {
                        let g = pool.lock().unwrap();
                        if g.is_empty() { None } else { Some(clone_logged(&g[rng.gen_range(0..g.len())])) }
                    };
                    let Some(mine) = mine else { continue };
                    let inst = mine.inst();
                    let mut keep = roll < 55;
                    if let Some(db) = mine.database() {
                        if roll % 2 == 0 {
                            // open (or re-open) the keyspace through this database handle
                            match &mine {
                                H::ODb(o) => {
                                    if let Ok(k) = o.keyspace("a", || KeyspaceCreateOptions::default().max_memtable_size(2_000)) {
                                        hev("CloneDb", inst);
                                        hev("OpenKs", inst);
                                        pool.lock().unwrap().push(H::OKs(k));
                                    }
                                }
                                _ => {
                                    if let Ok(k) = db.keyspace("a", || KeyspaceCreateOptions::default().max_memtable_size(2_000)) {
                                        hev("OpenKs", inst);
                                        pool.lock().unwrap().push(H::Ks(k));
                                    }
                                }
                            }
                        } else {
                            let _ = db.persist(PersistMode::Buffer);
                        }
                    }
                    if let Some(ks) = mine.keyspace() {
                        match roll % 4 {
                            0 => {
                                ks.verif_request_compaction();
                                hev("KsSend", inst);
                            }
                            1 => {
                                // (no direct rotate_memtable(): through a keyspace handle that outlived
                                // its Database the doc-hidden call parks a flush task - holding a
                                // keyspace clone - in the flush manager for good; rotations are
                                // requested the public way, by filling the tiny memtable)
                                let mut ing_ok = false;
                                if let Ok(mut ing) = ks.start_ingestion() {
                                    let key = format!("z{}", rng.gen_range(0..1_000_000));
                                    if ing.write(key.as_bytes(), b"i").is_ok() {
                                        ing_ok = ing.finish().is_ok();
                                    }
                                }
                                hev(if ing_ok { "KsSend" } else { "Note" }, inst);
                            }
                            _ => {
                                let key = format!("k{}", rng.gen_range(0..50));
                                if ks.insert(key.as_bytes(), vec![b'x'; rng.gen_range(1..600)]).is_ok() {
                                    hev("Write", inst);
                                }
                            }
                        }
                    }
                    if opn % 7 == 0 {
                        keep = false;
                    }
                    if keep {
                        pool.lock().unwrap().push(mine);
                    } else {
                        drop_logged(mine);
                    }
                }
            }));
        }
        let mut hung = false;
        for j in joins {
            if with_watchdog(60_000, move || j.join().is_ok()).is_none() {
                hung = true;
            }
        }
        fjall::verif::set_thread_tag(60);
        // the remaining handles go, one by one
        let rest: Vec<H> = std::mem::take(&mut *pool.lock().unwrap());
        let n_rest = rest.len();
        let dropped = with_watchdog(30_000, move || {
            for h in rest {
                drop_logged(h);
            }
        })
        .is_some();
        let had_db = dir.join("version").exists();
        // quiescence: the lock must become free, no worker thread may be left
        let end = Instant::now() + Duration::from_millis(5000);
        let mut free = lock_is_free(&dir);
        while had_db && free != Some(true) && Instant::now() < end {
            std::thread::sleep(Duration::from_millis(5));
            free = lock_is_free(&dir);
        }
        let left = wait_workers_gone(3000);
        let mut bad: Vec<String> = problems.lock().unwrap().clone();
        if hung {
            bad.push("a driver thread did not finish (watchdog)".into());
        }
        if !dropped {
            bad.push("dropping the remaining handles did not return (watchdog)".into());
        }
        if had_db && free != Some(true) {
            bad.push("the lock was not released after every handle had been dropped".into());
        }
        if left > 0 {
            bad.push(format!("{left} worker thread(s) left after every handle had been dropped"));
        }
        // and the directory opens again
        if had_db && bad.is_empty() {
            let (class, h) = try_open(&dir, 60, 0, 0);
            if class != "ok" {
                bad.push(format!("reopen after the last drop: {class}"));
            }
            if let Some(h) = h {
                drop_logged(h);
            }
        }
        let lines = fjall::verif::trace_take();
        let n_ev = lines.len();
        all_lines.extend(lines);
        out.behaviours += 1;
        out.steps += n_ev as u64;
        out.distinct.insert(util::hash_str(&format!("{run}-{n_ev}")));
        if !bad.is_empty() {
            let p = args.out_dir.join(format!("cex_C17_lifemt_run{run}.json"));
            let _ = std::fs::write(&p, serde_json::to_string_pretty(&json!({"kind": "life-mt", "seed": args.seed, "run": run, "problems": bad})).unwrap());
            out.violations.push(json!({"step": run, "first": bad[0], "replay": p.to_string_lossy()}));
            // a hung drop leaves threads behind that still use the tracer: stop here
            break;
        }
        if run == 0 {
            out.samples.push(json!({"run": run, "workers": workers, "threads": args.threads, "events": n_ev, "handles_left_at_end": n_rest}));
        }
        let _ = std::fs::remove_dir_all(&dir);
    }
    fjall::verif::trace_stop();
    let lines = rename_instances(attach_workers(all_lines));
    let p = args.out_dir.join("life_trace.ndjson");
    let _ = std::fs::write(&p, lines.join("\n") + "\n");
    out.notes.push(format!("trace: {} events in {}", lines.len(), p.display()));
    let _ = std::fs::remove_dir_all(&root);
    out
}
