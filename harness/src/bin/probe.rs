use fjall::{Database, KeyspaceCreateOptions, KvSeparationOptions};
fn main() {
    let dir = std::path::PathBuf::from("/dev/shm/vprobe");
    let _ = std::fs::remove_dir_all(&dir);
    let open = || Database::builder(&dir).worker_threads_unchecked(0).open();
    {
        let db = open().unwrap();
        let a = db.keyspace("a", || KeyspaceCreateOptions::default().with_kv_separation(Some(KvSeparationOptions::default()))).unwrap();
        println!("a id {}", a.id());
        db.delete_keyspace(a).unwrap();
        println!("dirs {:?}", std::fs::read_dir(dir.join("keyspaces")).unwrap().map(|e| e.unwrap().file_name()).collect::<Vec<_>>());
    }
    {
        let db = open().unwrap();
        let b = db.keyspace("b", KeyspaceCreateOptions::default).unwrap();
        println!("b id {} kvsep {:?}", b.id(), b.config.kv_separation_opts.is_some());
    }
    match open() { Ok(db) => { let b = db.keyspace("b", KeyspaceCreateOptions::default).unwrap(); println!("reopen ok: b id {} kvsep {:?}", b.id(), b.config.kv_separation_opts.is_some()); } Err(e) => println!("reopen failed {e:?}") }
}
