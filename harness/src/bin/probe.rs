use fjall::{Database, KeyspaceCreateOptions};
fn ls(dir: &std::path::Path) -> Vec<String> {
    let mut v: Vec<String> = std::fs::read_dir(dir).unwrap().map(|e| e.unwrap().file_name().to_string_lossy().to_string()).collect();
    v.sort();
    v
}
fn main() {
    let dir = std::path::PathBuf::from("/dev/shm/vprobe");
    let _ = std::fs::remove_dir_all(&dir);
    {
        let db = Database::builder(&dir).worker_threads_unchecked(0).open().unwrap();
        let a = db.keyspace("a", KeyspaceCreateOptions::default).unwrap();
        a.insert("k", "v1").unwrap();
        fjall::verif::set_force_journal_rotation(true);
        a.rotate_memtable().unwrap();
        while let Ok(Some(m)) = db.verif_step(0) { println!("step {m}"); }
        fjall::verif::set_force_journal_rotation(false);
        a.insert("k2", "v2").unwrap();
        println!("journals {} files {:?}", db.journal_count(), ls(&dir));
    }
    println!("after close {:?}", ls(&dir));
    std::fs::remove_file(dir.join("version")).unwrap();
    println!("marker removed {:?}", ls(&dir));
    let r = Database::builder(&dir).worker_threads_unchecked(0).open();
    match r {
        Ok(db) => {
            println!("OPEN OK (adopted) files {:?} names {:?}", ls(&dir), db.list_keyspace_names());
            let a = db.keyspace("a", KeyspaceCreateOptions::default);
            match a { Ok(a) => println!("ks a: id {} k={:?} k2={:?}", a.id(), a.get("k").unwrap(), a.get("k2").unwrap()), Err(e) => println!("ks err {e:?}") }
        }
        Err(e) => println!("open refused: {e:?} files {:?}", ls(&dir)),
    }
    let r = Database::builder(&dir).worker_threads_unchecked(0).open();
    match r {
        Ok(db) => {
            println!("REOPEN OK names {:?}", db.list_keyspace_names());
            if let Ok(a) = db.keyspace("a", KeyspaceCreateOptions::default) { println!("ks a: id {} k={:?} k2={:?}", a.id(), a.get("k").unwrap(), a.get("k2").unwrap()); }
        }
        Err(e) => println!("reopen refused: {e:?}"),
    }
}
