use fjall::Database;
fn main() {
    let dir = std::path::PathBuf::from("/dev/shm/vprobe");
    let _ = std::fs::remove_dir_all(&dir);
    std::fs::create_dir_all(dir.join("keyspaces")).unwrap();
    std::fs::write(dir.join("0.jnl"), b"").unwrap();
    std::fs::write(dir.join("lock"), b"").unwrap();
    let r = Database::builder(&dir).worker_threads_unchecked(0).open();
    println!("open with stale 0.jnl: {:?}", r.as_ref().map(|_| ()).map_err(|e| format!("{e:?}")));
}
