use fjall::{Database, KeyspaceCreateOptions};
fn main() -> fjall::Result<()> {
    let dir = std::path::PathBuf::from("/dev/shm/vprobe");
    let _ = std::fs::remove_dir_all(&dir);
    { let _db = Database::builder(&dir).worker_threads_unchecked(0).open()?; }
    {
        let db = Database::builder(&dir).worker_threads_unchecked(0).open()?;
        let b = db.keyspace("b", KeyspaceCreateOptions::default)?;
        println!("b id {} seqno {}", b.id(), db.seqno());
        db.delete_keyspace(b)?;
        println!("after delete seqno {}", db.seqno());
    }
    {
        let db = Database::builder(&dir).worker_threads_unchecked(0).open()?;
        println!("reopened: seqno {} names {:?}", db.seqno(), db.list_keyspace_names());
        let a = db.keyspace("a", KeyspaceCreateOptions::default)?;
        println!("a id {} seqno {}", a.id(), db.seqno());
        a.insert("k", "v")?;
        println!("a.get(k) = {:?} exists {}", a.get("k")?, db.keyspace_exists("a"));
    }
    {
        let db = Database::builder(&dir).worker_threads_unchecked(0).open()?;
        println!("reopened: names {:?} exists(a) {}", db.list_keyspace_names(), db.keyspace_exists("a"));
        let a = db.keyspace("a", KeyspaceCreateOptions::default)?;
        println!("a id {} get(k) = {:?}", a.id(), a.get("k")?);
    }
    Ok(())
}
