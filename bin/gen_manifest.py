#!/usr/bin/env python3
"""Regenerates MANIFEST.json from the table below (keeps it valid at all times)."""
import json, os, subprocess
V = os.path.dirname(os.path.dirname(os.path.abspath(__file__)))
props = [json.loads(l) for l in open(os.path.join(V, "properties.jsonl"))]

hooks_commits = subprocess.run(["git", "-C", "/repo", "log", "--format=%h %s"], stdout=subprocess.PIPE, text=True).stdout.splitlines()
hook_shas = [l.split()[0] for l in hooks_commits if "verif hooks" in l]

CLAIMED = {
 "C01": dict(engine="store-spec", design="6/C01",
   text="TLC exhaustively checks PointEqScan and ViewEqRef (point read = scan = sorted reference map) on FjallStore for all programs of <=4 client operations x all placements of <=4 rotate/flush/compact/ingest steps (1 keyspace) and cross-keyspace batches (2 keyspaces); behaviours chosen by TLC's simulator (two-phase sampling: action kind, then instance; length 12-24, 2-3 keys, 1-2 keyspaces, plus a shadowing-pattern instance with writes / removes / batches against rotate / flush / compact only) are executed step by step on the real database with background work stepped synchronously, and after every step the full read surface (get/contains_key/size_of/iter/range/prefix in all bound shapes, reverse and both-ended, first/last/len/is_empty, through the keyspace and through snapshots) is compared with the specification's state.",
   note="bounded (small-scope) model; lsm-tree's read rules, flush/compaction GC rule and version selection are transcribed into the spec and validated only through replay; replay uses 0 worker threads (maintenance placement is an input), concurrent maintenance is covered by C14/C05/C06 checks",
   technique="TLA+ spec (FjallStore) + TLC exhaustive/simulation + spec-to-implementation replay"),
 "C04": dict(engine="store-spec", design="6/C04",
   text="TLC checks that CloseReopen (the transcription of Database::recover: keyspace recovery, sealed-journal replay with skip-or-seal, unconditional active-journal replay, counters) preserves ViewEqRef/PointEqScan for all histories within the bounds (<=4 ops, <=3 maintenance steps, <=2 reopen cycles, clear, ingestion, flush, compaction); simulated behaviours with up to 6 reopen cycles and the regression corpus are replayed on the real code and the projection after reopen is compared with the specification and the reference map.",
   note="bounded model; known finding D1D2 (journal replay vs. bulk ingestion) is waived only for keyspaces the specification marks tainted, and only for values the model structure can produce",
   technique="TLA+ spec (FjallStore recovery operator) + TLC + replay with real close/reopen"),
 "C11": dict(engine="store-spec", design="6/C11",
   text="TLC checks SeqnoAboveEntries, SeqnoAboveJournal (every record of every journal file incl. clear records and records of deleted keyspaces), VisibleLeSeqno and ViewEqRef for writes after reopen; on the implementation the harness reads the seqnos present in the journal files with its own parser and tree.get_highest_seqno() per keyspace after every step and requires Database::seqno() to be above them, and overwrites/removes recovered keys in replayed behaviours.",
   note="seqno relations are compared (absolute values depend on lsm-tree internals); bounded model",
   technique="TLA+ spec invariants on shared counters + TLC + replay with independent journal parser"),
 "C12": dict(engine="store-spec", design="6/C12",
   text="TLC explores create/write/delete/re-create/open-existing/drop-handle/reopen over 2 names with journal records of deleted keyspaces still present, checking DurableMatchesMemory, DeletedNameAbsent, FilesGone, NoResurrection, ViewEqRef per name; the id counter and the meta keyspace (seqno-ordered name rows and tombstones) are modelled as the code computes them. Behaviours are replayed on the real code comparing names, keyspace_exists, Keyspace::id, content of every keyspace after every step. Batches through the kept handle of a deleted keyspace (StaleBatch: the record carries the dead id, nothing may surface in a keyspace re-created under the name) are part of the model and the replay.",
   note="bounded model (2 names, ids<=4); crash points inside create/delete are covered by the C02 check",
   technique="TLA+ spec (keyspace lifecycle + meta keyspace) + TLC + replay"),
 "C02": dict(engine="journal-spec", design="6/C02",
   text="TLC checks CrashRecoversAcked on FjallJournal (every step of the writers' critical sections, 2 threads, single writes / clears / batches, persist calls) and CrashSafe on FjallStore (recovery from the durable state equals the reference content in every reachable state incl. journal rotation, eviction, clear, flush). On the implementation, TLC-chosen behaviours (writes, batches, clears, ingestion, keyspace create/delete, rotation, flush, compaction, forced journal rotation and eviction, reopen) are executed under a syscall-level adversary that takes an image of the database directory before EVERY file-mutating call (including those of first-time creation) and at 3 split points of every journal write; every image is opened by the real recovery code and must equal the specification's state before or after the step in flight (one prefix for all keyspaces); then a probe key is written to every keyspace of the recovered image, the image is closed and opened once more, and the probe must be there with nothing else changed.",
   note="process-crash model (page cache survives, prefix-torn writes); single-threaded workloads; file creation through open(2) is not intercepted (coarsens the grid, cannot produce a wrong verdict); known finding D1D2 is reported as such",
   technique="TLA+ specs (FjallJournal, FjallStore CrashSafe) + TLC + crash-image enumeration at every syscall of replayed behaviours"),
 "C03": dict(engine="journal-format-spec", design="6/C03",
   text="JournalFormat models the journal as cells and the reader as the transcription of Entry::decode_from / JournalReader / JournalBatchReader; TLC checks TornTailAtomic and AppendRecoverable for every cut cell of every layout (EOF and zero-padded, torn multi-byte fields reading as smaller numbers). Real journals written through the API for 8 layouts x both compression settings are cut at every byte offset of the final batch (every 5th in quick), with and without zero padding; each is reopened, must equal the complete earlier batches, the file must be truncated to their end, and an insert appended afterwards must be recovered by a second reopen. Split points of journal write() calls are covered by the crash images of the corpus behaviours. The crash-image campaign is repeated with every batch committed as a write transaction.",
   note="prefix-torn model (no sector reordering); layouts: small / empty / compressed / large incompressible values, tombstone, clear, 2-keyspace batches",
   technique="TLA+ spec (JournalFormat) + TLC + byte-level cut campaign on real journal files"),
 "C05": dict(engine="store-spec", design="6/C05",
   text="TLC checks ViewsFrozen (point read and scan of every live view equal its content at creation), WatermarkBelowLive and version availability on FjallStore with 2-3 views against writes, clear, ingestion, rotation (pullup+gc), flush, compaction, version-history maintenance; FjallTx checks LiveSnapshotProtected (tracker counts through begin/commit/conflict/rollback of write transactions opened at the same instant). Replay: every live snapshot is re-read completely (all Readable methods) after every step of TLC-chosen behaviours, iterators created together with a view are consumed only when the view closes and must still show the old state; transaction replay checks the tracker count after every step. The read views of write transactions are covered by replaying FjallTx behaviours (every read method incl. all range-bound shapes and prefix, other transactions committing in between).",
   note="sequential interleavings of view lifetimes with every maintenance step (objects interleaved on one thread realise every logical schedule of the model); true thread schedules are covered by the C14/C06 trace validation",
   technique="TLA+ specs (FjallStore views + tracker, FjallTx tracker) + TLC + replay with frozen-content comparison"),
 "C07": dict(engine="tx-spec", design="6/C07",
   text="FjallTx models optimistic transactions with the read footprint the code records per method and per keyspace (get/contains_key, size_of, scans, the range shapes ..=k / k.. / k..=k, read-modify-write incl. take), the single-operation helpers of the transactional keyspace as one-operation transactions, and two keyspaces holding the same user keys; TLC checks Serializable (every observation of a committing transaction re-evaluated at its commit point), NoEffectUnlessCommitted, PruneKeepsNeeded, LiveSnapshotProtected exhaustively for 2 transactions x <=2-3 operations, for 3 transactions with tracker gc / pruning / version upgrades, and against helper operations. TLC-simulated behaviours are replayed on OptimisticTxDatabase (several WriteTransaction objects alive on one thread): every read result, every commit outcome (Ok/Conflict) and the committed content after each commit are compared. Multi-threaded transaction runs are validated against Tx_Trace.",
   note="method classes by footprint (get/contains_key, size_of, iter/len/is_empty/first/last, range/prefix, insert/remove, take/fetch_update/update_fetch); commit atomicity across threads rests on the oracle mutex, whose critical section is validated by the multi-threaded traces",
   technique="TLA+ spec (FjallTx) + TLC exhaustive + transaction replay"),
 "C08": dict(engine="tx-spec", design="6/C08",
   text="FjallTx defines in-transaction reads as own-writes-over-snapshot (TxVal), commit as the final write per key and keyspace in one batch, rollback/conflict as no effect, and the single-writer mutex; TLC checks CommitIsFinalWrites, NoEffectUnlessCommitted, SingleWriterExclusion (also over two keyspaces with the same user keys). Replay of TLC-simulated programs (<=6 operations, commit/rollback endings, 1 and 2 keyspaces, helper operations in between) on both SingleWriterTxDatabase and OptimisticTxDatabase compares every read (get, contains_key, size_of, iter, range shapes, len, is_empty, first/last, reverse iteration), take / fetch_update / update_fetch return values, and the content seen by an outside reader and snapshot after each commit. Threads queueing on the single-writer mutex are recorded and validated against Tx_Trace (every commit read the committed state of its commit point: no lost update).",
   note="lost-update freedom under thread schedules rests on the writer mutex (SingleWriterExclusion)",
   technique="TLA+ spec (FjallTx) + TLC + transaction replay on both transactional databases"),
 "C09": dict(engine="journal-spec", design="6/C09",
   text="TLC checks PowerLossKeepsDurable and CrashKeepsBuffered on FjallJournal (persist of every mode interleaved with 2 writers, with and without manual journal persist). On the implementation the adversary records, per journal file, the byte ranges written since its last successful fsync/fdatasync; for every mutating call of TLC-chosen behaviours (those with journal rotations first) and of the regression corpus a power-loss image (exactly those ranges zeroed) is reopened: no value acknowledged before the last sync point (persist(SyncData|SyncAll), journal rotation, drop) may be lost. With manual journal persist, process-crash images must contain everything before the last persist of any mode. Manual journal persist is modelled and driven as the two independent switches the code has (keyspace: insert/remove/clear; database: batches/transactions), one at a time and together; batches carry durability levels (sync points like persist) and are also committed as write transactions of the single-writer database; variants ClearFlushes = FALSE (D27) and PersistShortcut must be rejected.",
   note="power loss discards unsynced JOURNAL bytes (as the property says); table/manifest durability relies on lsm-tree's own fsyncs",
   technique="TLA+ spec (FjallJournal) + TLC + power-loss image enumeration"),
 "C10": dict(engine="store-spec", design="6/C10",
   text="TLC checks CrashSafe in every state (in particular right after every eviction), JournalsConsistent (oldest first, manager tracks exactly the sealed files) and AllFlushedOneJournal on FjallStore with journal rotation, watermarks captured from memtables, eviction, clear, keyspace deletion, reopen with re-registration of sealed journals. Behaviours with forced journal rotations are replayed; journal_count(), the *.jnl files on disk and the flush queue are compared after every step; crash images after every unlink are part of the C02 check.",
   note="rotation forced through a verif knob (threshold literal 64 MB); known finding D15 (journal pinned by a cleared keyspace)",
   technique="TLA+ spec (FjallStore journal manager) + TLC + replay with forced rotations"),
 "C13": dict(engine="journal-spec", design="6/C13",
   text="TLC checks FailStop, CrashRecoversAcked, AckedBeforeFaultRecovered on FjallJournal with an injected failure at any append / flush / sync of any operation kind and 2 writer threads. On the implementation: for every journal call n of TLC-chosen behaviours and each of EIO, ENOSPC, short-write+EIO: the call in flight must fail, every later insert/remove/clear/batch/persist must be refused, the drop must return, and a fault-free reopen must yield the acknowledged state (or the failed call as a whole). Multi-threaded runs with one fault are recorded through the critical-section hooks and validated against FjallJournal (Journal_Trace): an acknowledgement after a failure is rejected.",
   note="faults on journal files only; binding self-test (trace with one event removed must be rejected) on every run",
   technique="TLA+ spec (FjallJournal) + TLC + fault enumeration + trace validation of hook traces"),
 "C15": dict(engine="journal-format-spec", design="6/C15",
   text="JournalFormat: DamageNeverReadAsData for every single-cell alteration of every layout (the checksum covers exactly what the code hashes). Every byte of real journals (8 layouts x 2 compression settings) is altered (xor 1, xor 0x80, 0, 0xff, all tag/type values); opening must fail or yield a prefix state; the per-field outcome table of the implementation must be explained by the model's. Round trip: TLC-chosen behaviours are replayed with values of every length class (empty, around the compression threshold, 64 KiB) and compressibility, compared byte for byte after reopen, with the journal compression setting flipped at every reopen.",
   note="round trip over ALL byte strings is sampled per class, not decided; known finding D10 (Start.seqno not covered by the checksum)",
   technique="TLA+ spec (JournalFormat) + TLC + byte-alteration campaign + outcome-table conformance"),
 "C18": dict(engine="store-spec", design="6/C18",
   text="FjallStore with filter assignment by name - every name has its OWN filter kind (different verdicts per key, same Factory::name()) - applied by compactions: TLC checks FilteredFormOnly, AssignedIffAssigner (also after reopen), FilteredIsSticky (action property, also across reopen, waived only for the signature of D24), and ViewEqRef for unfiltered keyspaces. Replay with real compaction filter factories installed through the builder, filters on a only / b only / both, keyspaces created with fresh options or with options cloned from another keyspace's handle: filtered keyspaces must show original or their own filtered form (sticky once observed), the exact model state after a major compaction, unfiltered keyspaces the reference map. One of the two model filters decides from the value (key 2: Remove iff the value is an odd number), so that verdict handling across several versions of a key is observable.",
   note="non-major compaction choices are the strategy's; the replay accepts either form there; known finding D24 (filter-removed item replayed from the journal)",
   technique="TLA+ spec (FjallStore filters) + TLC + replay with a real filter factory"),
 "C06": dict(engine="mvcc-spec", design="6/C06",
   text="FjallMVCC models writers stepping through the journal critical section (draw - apply item by item - publish), version upgrades of any tree that draw from the shared seqno counter and raise the shared visible counter without the journal mutex, and snapshot readers; TLC checks NoTornBatch, InflightAboveVisible, ViewsFrozen, MutualExclusion for all schedules of 2 writers (a 2-item batch over 2 keyspaces) x 2 views, without and with version upgrades (the latter reaches the open finding D7, waived only downstream of its signature). The TLC counterexample is forced on the real code with pause sites (writer parked between two applies, flush of another keyspace, snapshot reads both keys). Multi-threaded runs of the real code (4-6 threads, 2-4 real workers, tiny memtables, batches over 2 keyspaces, snapshots) are recorded through hooks under the journal mutex and validated against MVCC_Trace, which evaluates NoTornBatch in every state of the trace. Plain scans (Keyspace::iter / range / prefix without a snapshot object) race multi-item batches in a separate multi-threaded run without version upgrades: the cells one scan returns must be the committed state at ONE instant of its call window (event ScanRet of MVCC_Trace), with no waiver.",
   note="lsm-tree's version upgrade is not hookable: inferred as forced silent steps from the seqno/visible scalars logged with every event; binding self-test (trace with a removed WApply must be rejected) on every run; known finding D7",
   technique="TLA+ spec (FjallMVCC) + TLC exhaustive + forced schedule + trace validation of multi-threaded runs"),
 "C14": dict(engine="mvcc-spec", design="6/C14",
   text="FjallMVCC: seqno order = order of critical sections = apply order (MutualExclusion), reads see applied entries; WorkerQueue / WorkerQueue2: the worker pool's message protocol (bounded queue, rotation requests carrying memtable ids, one flush-task FIFO for several keyspaces, journal mutex) - NoSendUnderLock, TasksAnnounced, WritersNeverStuck, NoStalledForEver as invariants, SealedEventuallyFlushed and StallEnds (a write stall ends) as liveness properties under weak fairness of the workers; five variants, among them the protocol as found before fix 80259e9 (D28), must be rejected on every run. On the implementation 2-8 threads write and read the same small key set through cloned handles with 1-4 real worker threads and tiny memtables; call/return events per thread plus the internal draw/apply/publish events are validated against MVCC_Trace (every get must return a value the key had between its call and its return - also against an in-flight clear -, every write occupies exactly one critical section in seqno order, the final content equals the model state); a watchdog turns client threads that never finish into a violation; a flood probe (tight-loop writers, 1000-byte memtables, 1-2 workers, worker queue filling up) reports writers that stop making progress and checks that nothing acknowledged is lost. The TLC counterexample of the as-found protocol is forced on the real code with a pause site (every worker parked between sealing a memtable and handling the flush task, queue filled through another keyspace): the stalled writer must come back. A second flood probe uses several keyspaces (flood on four, then writers on a keyspace that was idle).",
   note="liveness of the writers is decided on the WorkerQueue models (weak fairness of the workers) and probed on the implementation with watchdogs and one forced schedule; binding self-test on every run",
   technique="TLA+ spec (FjallMVCC) + TLC + trace validation of multi-threaded runs (linearization points as silent steps)"),
 "C17": dict(engine="lifecycle-spec", design="6/C17",
   text="DbLifecycle models the version marker, the advisory lock shared by DatabaseInner and every KeyspaceInner, user handles, the worker pool (thread counter, bounded queue whose messages carry keyspace clones), every step of Drop for DatabaseInner, the field drop order of DatabaseInner / KeyspaceInner, Drop for Journal and the unlock. TLC checks HandleImpliesLock, AtMostOneInstance, RefusedChangesNothing, IncompatibleRefused, AbsentMarkerRefused, UnlockAfterSync, NoUnsyncedOpen, DropReturnedWorkersGone, SettledUnlocked exhaustively (2-3 interleaved open attempts, 2 workers that may fail, both handle kinds, messages sent through keyspace handles) and DropTerminatesAll under weak fairness; six variants that re-introduce the repaired defects D9/D19/D20/D21/D22/D26 must each be rejected by the model on every run (the worker queue is modelled with flume's semantics: a sender blocked on the full queue is admitted only when a receiver finds room). Binding: forced schedules with pause sites for each model counterexample (worker delayed on its way out, worker that fails, worker blocked in send(Flush), message stranded in the queue, marker removed); TLC-simulated client-level behaviours (open attempts of all three database types, every marker class, clone/drop orders, writes, messages) replayed with real worker threads comparing lock state (flock probe), open result, directory digest after refused opens, worker threads alive, journal dropped, journal bytes covered by fsync (syscall record); multi-threaded handle churn recorded through lifecycle hooks and validated against Life_Trace with every invariant evaluated in every state.",
   note="hook placement rule (releasing steps logged before, acquiring steps after) makes the logged lock-holding interval a subset of the real one; refusals with Locked are explained with the opposite approximation; the worker queue is not observed in traces; doc-hidden Keyspace::rotate_memtable through a keyspace that outlived its Database is out of scope",
   technique="TLA+ spec (DbLifecycle) + TLC safety/liveness + forced schedules + behaviour replay + trace validation"),
 "C16": dict(engine="options-spec", design="6/C16",
   text="FjallOptions models how a keyspace's configuration is stored (one row per option under 'c'+id, strategy-specific rows, key-value-separation rows only when enabled, all written by one ingestion), how delete_keyspace tombstones the rows visible at that moment, the meta tree's own compaction, id hand-out and re-seeding, seqno restoration, and recovery's decoder; TLC checks InForce, StoredExact, DecodeOfStored, NoDeadRows, OpenIgnoresPassed, IdsDistinct exhaustively over create / open-existing / delete / re-create / reopen with configurations that differ in their row sets. TLC-simulated behaviours over the full product of 432 configuration classes are replayed on the real code: each class is concretised with pseudo-random values (policy vectors of length 1, 2-6, 7, 255; ratio vectors up to 256; extreme numbers), existing keyspaces are always opened with different options, and after every step (i) the Keyspace.config struct, (ii) the lsm-tree Config applied to the tree, (iii) behavioural witnesses (journal flush on write, rotation request size), (iv) the keyspace ids and (v) the stored form itself - the rows of the meta keyspace per id, which must be exactly the rows of the live keyspaces' configurations and nothing for any other id - are compared with the specification.",
   note="value-level fidelity is decided per class on random representatives, not for all values (stated in DESIGN.md 6/C16); level_count is not settable (hard-coded 7); compaction filter factories are C18's",
   technique="TLA+ spec (FjallOptions) + TLC exhaustive + class-concretising replay with three observation paths"),
}

REASON_PENDING = "check under construction in this session (specification module and conformance harness not yet bound); will be claimed once it runs green"

checks, na = [], []
for p in props:
    pid = p["id"]
    if pid in CLAIMED:
        c = CLAIMED[pid]
        checks.append({
            "property_id": pid,
            "quick_cmd": "bin/check %s --tier quick" % pid,
            "thorough_cmd": "bin/check %s --tier thorough" % pid,
            "evidence_file": "/verif/evidence/%s.json" % pid,
            "replay_cmd_template": "bin/check %s --replay {path}" % pid,
            "engine": c["engine"],
            "level_claimed": {"category": "model_checking", "text": c["text"], "design_ref": "DESIGN.md section " + c["design"]},
            "level_note": c["note"],
            "technique": c["technique"],
        })
    else:
        na.append({"property_id": pid, "reason": REASON_PENDING})

m = {
 "version": 1,
 "setup_cmd": "bin/setup",
 "hooks": {
   "guard": "cfg(fjall_verif)",
   "enable": "harness/.cargo/config.toml sets rustflags = [\"--cfg\", \"fjall_verif\", \"--check-cfg\", \"cfg(fjall_verif)\"]; the harness depends on /repo by path and is rebuilt by every check",
   "baseline_off_cmd": "cd /repo && cargo test --workspace --no-fail-fast --offline",
   "source_commits": hook_shas,
   "add_only": True,
 },
 "engines": [
   {"name": "store-spec", "path": "spec/FjallStore.tla", "serves_properties": ["C01", "C04", "C11", "C12", "C10", "C16", "C18", "C05"],
    "kind_free_text": "TLA+ specification of keyspaces/LSM structure/journal/recovery; MC_Store*.cfg bounded instances; MC_StoreSim (behaviour generation); Store_Trace (per-step evaluation / trace validation)"},
   {"name": "journal-spec", "path": "spec/FjallJournal.tla", "serves_properties": ["C02", "C03", "C09", "C13"],
    "kind_free_text": "TLA+ specification of the writers' critical section, journal frames (buffer/OS/device), persist, poison, crash and power loss; MC_Journal_*.cfg; Journal_Trace (trace validation of hook traces)"},
   {"name": "journal-format-spec", "path": "spec/JournalFormat.tla", "serves_properties": ["C03", "C15"],
    "kind_free_text": "TLA+ specification of the journal file format at cell granularity and of the reader state machine; MC_JF_*.cfg"},
   {"name": "tx-spec", "path": "spec/FjallTx.tla", "serves_properties": ["C07", "C08", "C05"],
    "kind_free_text": "TLA+ specification of optimistic (SSI) and single-writer transactions; MC_Tx_*.cfg; MC_TxSim (behaviour generation)"},
   {"name": "mvcc-spec", "path": "spec/FjallMVCC.tla", "serves_properties": ["C05", "C06", "C14"],
    "kind_free_text": "TLA+ specification of writers' critical sections, version upgrades on the shared counters, snapshot readers; MC_MVCC_*.cfg; MVCC_Trace (trace validation of multi-threaded runs)"},
   {"name": "worker-queue-spec", "path": "spec/WorkerQueue.tla", "serves_properties": ["C14"],
    "kind_free_text": "TLA+ specification of the worker pool's message protocol (bounded queue, try_send by writers, what a worker does after sealing a memtable, journal mutex, write stall); MC_WorkerQueue_Lock.cfg (invariants), MC_WorkerQueue.cfg (liveness: SealedEventuallyFlushed); variants SendUnderLock, FlushTrySend, InlineFlush = FALSE (as found, D28)"},
   {"name": "worker-queue2-spec", "path": "spec/WorkerQueue2.tla", "serves_properties": ["C14"],
    "kind_free_text": "the same protocol with several keyspaces and rotation requests carrying memtable ids: TasksAnnounced, SealedHasTask, NoStalledForEver (MC_WorkerQueue2.cfg), liveness StallEnds (MC_WorkerQueue2_Live.cfg); variants AsFound (D28), FlushTrySend"},
   {"name": "options-spec", "path": "spec/FjallOptions.tla", "serves_properties": ["C16"],
    "kind_free_text": "TLA+ specification of the stored form of keyspace options (meta keyspace rows), deletion, re-creation, recovery decoder; MC_Opts.cfg; MC_OptsSim (behaviour generation)"},
   {"name": "lifecycle-spec", "path": "spec/DbLifecycle.tla", "serves_properties": ["C17"],
    "kind_free_text": "TLA+ specification of lock, version marker, handles, worker shutdown, drop order; MC_Life*.cfg; MC_LifeSim (behaviour generation); Life_Trace (trace validation)"},
   {"name": "harness", "path": "harness/", "serves_properties": [p["id"] for p in props],
    "kind_free_text": "Rust conformance harness (path dependency on /repo, built with --cfg fjall_verif): replays specification behaviours on the real database and projects its state"},
 ],
 "checks": checks,
 "not_applicable": na,
 "notes": "All checks: exit 0 = held (KNOWN-FINDING lines for entries of KNOWN_FINDINGS.json), exit 1 + VIOLATION line, exit 2 = tool error/timeout. VERIF_SEED and VERIF_TIER are honoured.",
}
json.dump(m, open(os.path.join(V, "MANIFEST.json"), "w"), indent=1)
print("claimed:", [c["property_id"] for c in checks])
