#!/usr/bin/env python3
"""Regenerates MANIFEST.json from the table below (keeps it valid at all times)."""
import json, os, subprocess
V = os.path.dirname(os.path.dirname(os.path.abspath(__file__)))
props = [json.loads(l) for l in open(os.path.join(V, "properties.jsonl"))]

hooks_commits = subprocess.run(["git", "-C", "/repo", "log", "--format=%h %s"], stdout=subprocess.PIPE, text=True).stdout.splitlines()
hook_shas = [l.split()[0] for l in hooks_commits if "verif hooks" in l]

CLAIMED = {
 "C01": dict(engine="store-spec", design="6/C01",
   text="TLC exhaustively checks PointEqScan and ViewEqRef (point read = scan = sorted reference map) on FjallStore for all programs of <=4 client operations x all placements of <=4 rotate/flush/compact/ingest steps (1 keyspace) and cross-keyspace batches (2 keyspaces); behaviours chosen by TLC's simulator (length 12-24, 2-3 keys, 1-2 keyspaces) are executed step by step on the real database with background work stepped synchronously, and after every step the full read surface (get/contains_key/size_of/iter/range/prefix in all bound shapes, reverse and both-ended, first/last/len/is_empty, through the keyspace and through snapshots) is compared with the specification's state.",
   note="bounded (small-scope) model; lsm-tree's read rules, flush/compaction GC rule and version selection are transcribed into the spec and validated only through replay; replay uses 0 worker threads (maintenance placement is an input), concurrent maintenance is covered by C14/C05/C06 checks",
   technique="TLA+ spec (FjallStore) + TLC exhaustive/simulation + spec-to-implementation replay"),
 "C04": dict(engine="store-spec", design="6/C04",
   text="TLC checks that CloseReopen (the transcription of Database::recover: keyspace recovery, sealed-journal replay with skip-or-seal, unconditional active-journal replay, counters) preserves ViewEqRef/PointEqScan for all histories within the bounds (<=4 ops, <=3 maintenance steps, <=2 reopen cycles, clear, ingestion, flush, compaction); simulated behaviours with up to 6 reopen cycles and the regression corpus are replayed on the real code and the projection after reopen is compared with the specification and the reference map.",
   note="bounded model; known finding D1D2 (journal replay vs. bulk ingestion) is waived only for keyspaces the specification marks tainted, and only for values the model structure can produce",
   technique="TLA+ spec (FjallStore recovery operator) + TLC + replay with real close/reopen"),
 "C11": dict(engine="store-spec", design="6/C11",
   text="TLC checks SeqnoAboveEntries, SeqnoAboveJournal (every record of every journal file incl. clear records and records of deleted keyspaces), VisibleLeSeqno and ViewEqRef for writes after reopen; on the implementation the harness reads the seqnos present in the journal files with its own parser and tree.get_highest_seqno() per keyspace after every step and requires Database::seqno() to be above them, and overwrites/removes recovered keys in replayed behaviours.",
   note="seqno relations are compared (absolute values depend on lsm-tree internals); bounded model",
   technique="TLA+ spec invariants on shared counters + TLC + replay with independent journal parser"),
 "C12": dict(engine="store-spec", design="6/C12",
   text="TLC explores create/write/delete/re-create/open-existing/drop-handle/reopen over 2 names with journal records of deleted keyspaces still present, checking DurableMatchesMemory, DeletedNameAbsent, FilesGone, NoResurrection, ViewEqRef per name; the id counter and the meta keyspace (seqno-ordered name rows and tombstones) are modelled as the code computes them. Behaviours are replayed on the real code comparing names, keyspace_exists, Keyspace::id, content of every keyspace after every step.",
   note="bounded model (2 names, ids<=4); crash points inside create/delete are covered by the C02 check",
   technique="TLA+ spec (keyspace lifecycle + meta keyspace) + TLC + replay"),
}

REASON_PENDING = "check under construction in this session (specification module and conformance harness not yet bound); will be claimed once it runs green"

checks, na = [], []
for p in props:
    pid = p["id"]
    if pid in CLAIMED:
        c = CLAIMED[pid]
        checks.append({
            "property_id": pid,
            "quick_cmd": "bin/check %s --tier quick" % pid,
            "thorough_cmd": "bin/check %s --tier thorough" % pid,
            "evidence_file": "/verif/evidence/%s.json" % pid,
            "replay_cmd_template": "bin/check %s --replay {path}" % pid,
            "engine": c["engine"],
            "level_claimed": {"category": "model_checking", "text": c["text"], "design_ref": "DESIGN.md section " + c["design"]},
            "level_note": c["note"],
            "technique": c["technique"],
        })
    else:
        na.append({"property_id": pid, "reason": REASON_PENDING})

m = {
 "version": 1,
 "setup_cmd": "bin/setup",
 "hooks": {
   "guard": "cfg(fjall_verif)",
   "enable": "harness/.cargo/config.toml sets rustflags = [\"--cfg\", \"fjall_verif\", \"--check-cfg\", \"cfg(fjall_verif)\"]; the harness depends on /repo by path and is rebuilt by every check",
   "baseline_off_cmd": "cd /repo && cargo test --workspace --no-fail-fast --offline",
   "source_commits": hook_shas,
   "add_only": True,
 },
 "engines": [
   {"name": "store-spec", "path": "spec/FjallStore.tla", "serves_properties": ["C01", "C04", "C11", "C12", "C10", "C16", "C18", "C05"],
    "kind_free_text": "TLA+ specification of keyspaces/LSM structure/journal/recovery; MC_Store*.cfg bounded instances; MC_StoreSim (behaviour generation); Store_Trace (per-step evaluation / trace validation)"},
   {"name": "harness", "path": "harness/", "serves_properties": [p["id"] for p in props],
    "kind_free_text": "Rust conformance harness (path dependency on /repo, built with --cfg fjall_verif): replays specification behaviours on the real database and projects its state"},
 ],
 "checks": checks,
 "not_applicable": na,
 "notes": "All checks: exit 0 = held (KNOWN-FINDING lines for entries of KNOWN_FINDINGS.json), exit 1 + VIOLATION line, exit 2 = tool error/timeout. VERIF_SEED and VERIF_TIER are honoured.",
}
json.dump(m, open(os.path.join(V, "MANIFEST.json"), "w"), indent=1)
print("claimed:", [c["property_id"] for c in checks])
