#!/bin/bash
# runs the quick tier of the given checks sequentially, summary in work/run_all.log
cd /verif
: > work/run_all.log
for c in "$@"; do
  s=$(date +%s)
  bin/check $c --tier ${VERIF_TIER:-quick} > work/check_$c.out 2>&1
  rc=$?
  echo "$c rc=$rc $(( $(date +%s) - s ))s $(grep -cE '^VIOLATION' work/check_$c.out) violations; $(grep -E '^KNOWN-FINDING|TOOL-ERROR' work/check_$c.out | cut -c1-120 | tr '\n' '|')" >> work/run_all.log
done
echo DONE >> work/run_all.log
