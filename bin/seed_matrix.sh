#!/bin/bash
# seed_matrix.sh "<seed>:<check>[,<check>...]" ...   applies each seeded change to /repo, runs the
# quick tier of the named checks, records rc (1 = detected), reverts.  Results: work/seed_matrix.log
cd /verif
for spec in "$@"; do
  seed=${spec%%:*}; checks=${spec#*:}
  p=/verif/seeded/$seed/patch.diff
  [ -f /verif/seeded/$seed/patch.rebased.diff ] && p=/verif/seeded/$seed/patch.rebased.diff
  git -C /repo checkout -- src
  if git -C /repo apply $p 2>/dev/null; then how=apply; elif (cd /repo && patch -p1 --fuzz=3 --no-backup-if-mismatch < $p >/dev/null 2>&1); then how=fuzz; else echo "$seed APPLY-FAILED" >> work/seed_matrix.log; git -C /repo checkout -- src; continue; fi
  for c in ${checks//,/ }; do
    s=$(date +%s)
    bin/check $c --tier quick > work/seed_${seed}_$c.out 2>&1
    rc=$?
    echo "$seed($how) check=$c rc=$rc $(( $(date +%s) - s ))s :: $(grep -A1 '^VIOLATION' work/seed_${seed}_$c.out | head -2 | tr '\n' ' ' | cut -c1-260) $(grep TOOL-ERROR work/seed_${seed}_$c.out | cut -c1-200)" >> work/seed_matrix.log
  done
  git -C /repo checkout -- src
  find /repo/src -name "*.orig" -o -name "*.rej" | xargs -r rm -f
done
echo DONE >> work/seed_matrix.log
