#!/usr/bin/env python3
"""Shared machinery of the checks: TLC runs, behaviour export, harness invocation, evidence."""
import json, os, re, subprocess, sys, time, shutil, hashlib

VERIF = os.path.dirname(os.path.dirname(os.path.abspath(__file__)))
SPEC = os.path.join(VERIF, "spec")
HARNESS = os.path.join(VERIF, "harness")
WORK = os.path.join(VERIF, "work")
EVID = os.path.join(VERIF, "evidence")
VH = os.path.join(HARNESS, "target", "debug", "vh")
TLA_JAR = "/opt/veriftools/tla/tla2tools.jar"

os.makedirs(WORK, exist_ok=True)
os.makedirs(EVID, exist_ok=True)


class ToolError(Exception):
    pass


def seed():
    try:
        return int(os.environ.get("VERIF_SEED", "1"))
    except ValueError:
        return 1


def known_findings():
    p = os.path.join(VERIF, "KNOWN_FINDINGS.json")
    if not os.path.exists(p):
        return []
    return json.load(open(p)).get("findings", [])


def open_kf_ids(prop=None):
    return [f["id"] for f in known_findings()
            if f.get("status") == "open" and (prop is None or prop in f.get("properties", []))]


def build_harness():
    """Rebuilds the harness (and fjall from /repo's working tree, hooks on)."""
    lock = os.path.join(HARNESS, "Cargo.lock")
    if not os.path.exists(lock):
        shutil.copy("/repo/Cargo.lock", lock)
    t0 = time.time()
    env = dict(os.environ, CARGO_NET_OFFLINE="true")
    r = subprocess.run(["cargo", "build", "--offline", "--bins"], cwd=HARNESS, env=env,
                       stdout=subprocess.PIPE, stderr=subprocess.STDOUT, text=True)
    if r.returncode != 0:
        sys.stderr.write(r.stdout[-6000:])
        raise ToolError("harness build failed (does /repo still compile with --cfg fjall_verif?)")
    return time.time() - t0


def _tlc_cmd(module, cfg, workers, metadir, extra):
    return ["java", "-XX:+UseParallelGC", "-Xmx12g", "-Xss64m",
            "-cp", TLA_JAR + ":/opt/veriftools/tla/CommunityModules-deps.jar",
            "tlc2.TLC"] if False else \
           ["tlc", "-workers", str(workers), "-metadir", metadir, "-cleanup", "-noGenerateSpecTE",
            "-config", cfg] + extra + [module]


def write_cfg(name, base_cfg, overrides=None, add_lines=None, drop_invariants=False):
    """Derives a cfg under work/ from a committed cfg: constant overrides and extra lines."""
    text = open(os.path.join(SPEC, base_cfg)).read()
    if overrides:
        for k, v in overrides.items():
            text, n = re.subn(r"(?m)^(\s*%s\s*=\s*).*$" % re.escape(k), lambda m: m.group(1) + v, text)
            if n == 0:
                raise ToolError("constant %s not in %s" % (k, base_cfg))
    if drop_invariants:
        text = re.sub(r"(?m)^INVARIANTS?.*$", "", text)
        text = re.sub(r"(?m)^PROPERT(Y|IES).*$", "", text)
    if add_lines:
        text += "\n" + "\n".join(add_lines) + "\n"
    p = os.path.join(SPEC, "_gen_" + name + ".cfg")
    open(p, "w").write(text)
    return os.path.basename(p)


def run_tlc(module, cfg, workers=8, timeout=600, extra=None, tag=None, env_extra=None):
    """Runs TLC in model-checking mode. Returns a dict with counts and, on a violation,
    the violated invariant and the counterexample text."""
    tag = tag or (module + "_" + cfg).replace(".", "_")
    metadir = os.path.join(WORK, "tlc_" + tag)
    shutil.rmtree(metadir, ignore_errors=True)
    log = os.path.join(WORK, tag + ".log")
    cmd = ["timeout", str(timeout)] + _tlc_cmd(module, cfg, workers, metadir, extra or [])
    env = dict(os.environ)
    if env_extra:
        env.update(env_extra)
    t0 = time.time()
    with open(log, "w") as f:
        r = subprocess.run(cmd, cwd=SPEC, stdout=f, stderr=subprocess.STDOUT, env=env)
    wall = time.time() - t0
    shutil.rmtree(metadir, ignore_errors=True)
    out = open(log, errors="replace").read()
    res = {"module": module, "cfg": cfg, "wall_s": round(wall, 1), "log": log, "rc": r.returncode,
           "states": 0, "distinct": 0, "depth": 0, "violated": None, "trace": None, "finished": False,
           "timeout": r.returncode == 124}
    m = re.findall(r"(\d+) states generated, (\d+) distinct states found", out)
    if m:
        res["states"], res["distinct"] = int(m[-1][0]), int(m[-1][1])
    m = re.search(r"depth of the complete state graph search is (\d+)", out)
    if m:
        res["depth"] = int(m.group(1))
    if "Model checking completed. No error has been found." in out:
        res["finished"] = True
    m = re.search(r"Error: Invariant (\S+) is violated", out)
    if m:
        res["violated"] = m.group(1)
    m2 = re.search(r"Error: Action property (\S+) is violated", out)
    if m2:
        res["violated"] = m2.group(1)
    m3 = re.search(r"Error: Temporal property (\S+) was violated", out)
    if m3:
        res["violated"] = res["violated"] or m3.group(1)
    if "Temporal properties were violated" in out:
        res["violated"] = res["violated"] or "temporal"
    if res["violated"]:
        i = out.find("Error:")
        res["trace"] = out[i:i + 20000]
    elif not res["finished"] and not res["timeout"]:
        # parse / semantic / evaluation error
        i = out.find("Error")
        raise ToolError("TLC failed on %s/%s: %s" % (module, cfg, out[i:i + 1500] if i >= 0 else out[-1500:]))
    cov = {}
    for mm in re.finditer(r"<(\w+) line \d+, col \d+ to line \d+, col \d+ of module \w+>: (\d+):(\d+)", out):
        cov[mm.group(1)] = [int(mm.group(2)), int(mm.group(3))]
    res["coverage"] = cov
    return res


STEP_RE = re.compile(r'<<"STEP", "(.*)">>\s*$')


def simulate(module, cfg, num, depth, sd, tag=None, timeout=600):
    """Runs TLC in simulation mode on a cfg that has `INVARIANT Export`; returns behaviours
    (lists of step records)."""
    tag = tag or ("sim_" + cfg.replace(".", "_"))
    metadir = os.path.join(WORK, "tlc_" + tag)
    shutil.rmtree(metadir, ignore_errors=True)
    log = os.path.join(WORK, tag + ".log")
    cmd = ["timeout", str(timeout), "tlc", "-workers", "1", "-metadir", metadir, "-cleanup",
           "-noGenerateSpecTE", "-simulate", "num=%d" % num, "-depth", str(depth),
           "-seed", str(sd), "-config", cfg, module]
    with open(log, "w") as f:
        r = subprocess.run(cmd, cwd=SPEC, stdout=f, stderr=subprocess.STDOUT)
    shutil.rmtree(metadir, ignore_errors=True)
    behaviours, cur = [], []
    bad = None
    with open(log, errors="replace") as f:
        for line in f:
            m = STEP_RE.match(line.strip())
            if not m:
                if line.startswith("Error:") and bad is None:
                    bad = line.strip()
                continue
            rec = json.loads(json.loads('"' + m.group(1) + '"'))
            if rec["lvl"] == 1 and cur:
                behaviours.append(cur)
                cur = []
            cur.append(rec)
    if cur:
        behaviours.append(cur)
    if not behaviours:
        raise ToolError("simulation produced no behaviours (%s): %s" % (log, bad))
    return behaviours


def write_behaviours(behaviours, name):
    p = os.path.join(WORK, name + ".ndjson")
    with open(p, "w") as f:
        for b in behaviours:
            f.write(json.dumps(b, separators=(",", ":")) + "\n")
    return p


def run_vh(args, timeout=1800):
    cmd = ["timeout", str(timeout), VH] + args
    r = subprocess.run(cmd, stdout=subprocess.PIPE, stderr=subprocess.PIPE, text=True)
    if r.returncode == 124:
        raise ToolError("harness timed out: " + " ".join(args))
    last = None
    for line in r.stdout.splitlines():
        if line.startswith('{"result"'):
            last = json.loads(line)["result"]
    if last is None:
        raise ToolError("harness gave no result (rc=%d): %s\n%s" % (r.returncode, r.stdout[-2000:], r.stderr[-3000:]))
    return last


class Check:
    """Accumulates what one check run did and writes the evidence file."""

    def __init__(self, prop, tier):
        self.prop, self.tier = prop, tier
        self.t0 = time.time()
        self.states = 0
        self.transitions = 0
        self.traces = 0
        self.samples = []
        self.violations = []   # (message, replay path)
        self.known = []        # (id, message)
        self.parts = []
        self.assumptions = []
        self.extra = {}

    def add_tlc(self, res, expect_ok=True, note=None):
        self.states += res["distinct"]
        self.transitions += res["states"]
        self.parts.append({"tlc": res["cfg"], "distinct_states": res["distinct"], "states_generated": res["states"],
                           "depth": res["depth"], "finished": res["finished"], "wall_s": res["wall_s"],
                           "violated": res["violated"], "note": note,
                           "actions_covered": {k: v[0] for k, v in res.get("coverage", {}).items()}})

    def violation(self, msg, replay):
        self.violations.append((msg, replay))

    def known_finding(self, kid, msg):
        if not any(k == kid for k, _ in self.known):
            self.known.append((kid, msg))

    def save_counterexample(self, name, text):
        p = os.path.join(WORK, "cex_%s_%s.txt" % (self.prop, name))
        open(p, "w").write(text or "")
        return p

    def finish(self):
        wall = time.time() - self.t0
        ev = {
            "property_id": self.prop,
            "tier": self.tier,
            "seed": seed(),
            "level": "model_checking",
            "coverage": {
                "states": max(self.states, 1),
                "transitions": max(self.transitions, 1),
                "traces_validated_against_impl": self.traces,
                "samples": self.samples[:6] if self.samples else ["(none)"],
                "parts": self.parts,
                "known_findings_reported": [{"id": k, "what": m} for k, m in self.known],
            },
            "assumptions": self.assumptions,
            "wall_s": round(wall, 1),
            "violations": len(self.violations),
        }
        ev["coverage"].update(self.extra)
        with open(os.path.join(EVID, self.prop + ".json"), "w") as f:
            json.dump(ev, f, indent=1)
        for kid, msg in self.known:
            print("KNOWN-FINDING: property=%s %s %s" % (self.prop, kid, msg))
        for msg, rp in self.violations:
            print("VIOLATION property=%s replay=%s" % (self.prop, rp))
            print("  " + msg)
        print("check %s tier=%s: states=%d traces=%d violations=%d known=%d wall=%.0fs" %
              (self.prop, self.tier, self.states, self.traces, len(self.violations), len(self.known), wall))
        return 1 if self.violations else 0


BEH_RE = re.compile(r'<<"BEHAVIOUR", "(.*)">>\s*$')


def simulate_actions(module, base_cfg, num, depth, sd, overrides=None, tag="sim", timeout=600, siblings=2):
    """TLC's simulator chooses behaviours of the bounded instance (SimSpec carries the action
    history); returns distinct action sequences of length `depth`-1."""
    if module == "MC_StoreSim.tla":
        # two-phase sampling (kind, then instance): two levels per action, one behaviour per run
        depth = 2 * depth - 1
        num = 2 * num
    cfg = write_cfg(tag, base_cfg, overrides=overrides, drop_invariants=True,
                    add_lines=["INVARIANT ExportHist"])
    text = open(os.path.join(SPEC, cfg)).read()
    text = re.sub(r"(?m)^SPECIFICATION\s+\S+", "SPECIFICATION SimSpec", text)
    text = re.sub(r"(?m)^VIEW.*$", "", text)
    text = re.sub(r"(?m)^CONSTRAINT.*$", "", text)
    text = re.sub(r"(?m)^CONSTANTS\s*$", "CONSTANTS\n  SimDepth = %d" % depth, text, count=1)
    open(os.path.join(SPEC, cfg), "w").write(text)
    metadir = os.path.join(WORK, "tlc_" + tag)
    shutil.rmtree(metadir, ignore_errors=True)
    log = os.path.join(WORK, tag + ".log")
    cmd = ["timeout", str(timeout), "tlc", "-workers", "1", "-metadir", metadir, "-cleanup",
           "-noGenerateSpecTE", "-simulate", "num=%d" % num, "-depth", str(depth),
           "-seed", str(sd), "-config", cfg, module]
    with open(log, "w") as f:
        subprocess.run(cmd, cwd=SPEC, stdout=f, stderr=subprocess.STDOUT)
    shutil.rmtree(metadir, ignore_errors=True)
    seen, out = set(), []
    per_prefix = {}
    err = None
    with open(log, errors="replace") as f:
        for line in f:
            m = BEH_RE.match(line.strip())
            if not m:
                if line.startswith("Error:") and err is None:
                    err = line.strip()
                continue
            raw = json.loads('"' + m.group(1) + '"')
            if raw in seen:
                continue
            seen.add(raw)
            seq = json.loads(raw)
            # the candidates TLC evaluates at the final level share their prefix: keep at most
            # `siblings` of them per prefix
            pk = json.dumps(seq[:-1])
            per_prefix[pk] = per_prefix.get(pk, 0) + 1
            if per_prefix[pk] > siblings:
                continue
            out.append(seq)
    if not out:
        raise ToolError("simulation produced no behaviours (%s): %s" % (log, err))
    return out


def trace_eval(action_seqs, trace_cfg="Store_Trace.cfg", overrides=None, tag="tr", timeout=900,
               invariants=None):
    """Expands action sequences into per-step model states with Store_Trace (one TLC run for
    all sequences, separated by Reset events). Returns (behaviours, info): behaviours are
    lists of {lvl, act, st}; a sequence the specification does not allow is cut short and
    reported in info['rejected']."""
    ev_path = os.path.join(WORK, tag + "_events.ndjson")
    bounds = []
    n = 0
    with open(ev_path, "w") as f:
        for seq in action_seqs:
            f.write(json.dumps({"a": "Reset"}) + "\n")
            n += 1
            start = n
            for a in seq:
                f.write(json.dumps(a, separators=(",", ":")) + "\n")
                n += 1
            bounds.append((start, n))
    add = []
    if invariants:
        add.append("INVARIANTS " + " ".join(invariants))
    cfg = write_cfg(tag, trace_cfg, overrides=overrides, add_lines=add)
    metadir = os.path.join(WORK, "tlc_" + tag)
    shutil.rmtree(metadir, ignore_errors=True)
    log = os.path.join(WORK, tag + ".log")
    env = dict(os.environ, TRACE=ev_path,
               JAVA_TOOL_OPTIONS="-Xss1g -Dtlc2.tool.queue.IStateQueue=StateDeque")
    cmd = ["timeout", str(timeout), "tlc", "-workers", "1", "-metadir", metadir, "-cleanup",
           "-noGenerateSpecTE", "-config", cfg, "Store_Trace.tla"]
    t0 = time.time()
    with open(log, "w") as f:
        r = subprocess.run(cmd, cwd=SPEC, stdout=f, stderr=subprocess.STDOUT, env=env)
    shutil.rmtree(metadir, ignore_errors=True)
    steps = {}
    violated = None
    with open(log, errors="replace") as f:
        for line in f:
            m = STEP_RE.match(line.strip())
            if m:
                rec = json.loads(json.loads('"' + m.group(1) + '"'))
                # lvl = index of the NEXT event to consume; the state is after event lvl-1
                steps[rec["lvl"] - 1] = rec
                continue
            mm = re.match(r"Error: Invariant (\S+) is violated", line)
            if mm:
                violated = mm.group(1)
    if r.returncode == 124:
        raise ToolError("trace evaluation timed out (%s)" % log)
    if not steps:
        raise ToolError("trace evaluation produced nothing (%s)" % log)
    behaviours, rejected = [], []
    for bi, (start, end) in enumerate(bounds):
        b = []
        for idx in range(start, end + 1):
            if idx not in steps:
                break
            if idx == start:
                continue   # state after the Reset event itself = initial state
            b.append(steps[idx])
        # idx numbering: event i (1-based) consumed => state printed with l = i+1 => key i
        if len(b) < len(action_seqs[bi]):
            rejected.append({"behaviour": bi, "accepted": len(b), "of": len(action_seqs[bi]),
                             "first_unmatched": action_seqs[bi][len(b)] if len(b) < len(action_seqs[bi]) else None})
            behaviours.append(b)
            break   # everything after a rejected event is unexamined
        behaviours.append(b)
    info = {"events": n, "wall_s": round(time.time() - t0, 1), "rejected": rejected,
            "violated": violated, "log": log, "states": len(steps)}
    return behaviours, info


def validate_trace(module, cfg, trace_path, tag="tv", timeout=600):
    """Validates an implementation trace (NDJSON) against a *_Trace specification.
    Returns dict: accepted, violated (invariant name or None), rejected_at (text or None),
    states, events."""
    metadir = os.path.join(WORK, "tlc_" + tag)
    shutil.rmtree(metadir, ignore_errors=True)
    log = os.path.join(WORK, tag + ".log")
    env = dict(os.environ, TRACE=trace_path,
               JAVA_TOOL_OPTIONS="-Xss1g -Dtlc2.tool.queue.IStateQueue=StateDeque")
    cmd = ["timeout", str(timeout), "tlc", "-workers", "1", "-metadir", metadir, "-cleanup",
           "-noGenerateSpecTE", "-config", cfg, module]
    t0 = time.time()
    with open(log, "w") as f:
        r = subprocess.run(cmd, cwd=SPEC, stdout=f, stderr=subprocess.STDOUT, env=env)
    shutil.rmtree(metadir, ignore_errors=True)
    out = open(log, errors="replace").read()
    if r.returncode == 124:
        raise ToolError("trace validation timed out (%s)" % log)
    res = {"accepted": False, "violated": None, "rejected_at": None, "states": 0, "log": log,
           "events": sum(1 for _ in open(trace_path)), "wall_s": round(time.time() - t0, 1)}
    m = re.findall(r"(\d+) states generated, (\d+) distinct states found", out)
    if m:
        res["states"] = int(m[-1][1])
    mm = re.search(r"Error: Invariant (\S+) is violated", out)
    if mm:
        res["violated"] = mm.group(1)
        i = out.find("Error: Invariant")
        res["detail"] = out[i:i + 6000]
        return res
    if "Model checking completed. No error has been found." in out:
        res["accepted"] = True
        return res
    i = out.find("TRACE-REJECTED")
    if i >= 0:
        res["rejected_at"] = " ".join(out[i:i + 600].split())
        return res
    j = out.find("Error")
    raise ToolError("trace validation failed to run (%s): %s" % (log, out[j:j + 800] if j >= 0 else out[-800:]))
