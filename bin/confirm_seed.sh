#!/bin/bash
# confirm_seed.sh <ID> <srcdir with patch.diff seeded_demo.rs meta.json>
# Confirms a seeded change in a scratch worktree of /repo HEAD: patch applies, crate compiles,
# existing suite passes with it, demo fails with it and passes without it.
ID=$1; SRC=$2
WT=/tmp/confirm/$ID
export CARGO_TARGET_DIR=/tmp/confirm/target
mkdir -p /tmp/confirm
git -C /repo worktree remove --force $WT >/dev/null 2>&1
git -C /repo worktree add --detach $WT HEAD >/dev/null 2>&1 || { echo "worktree failed"; exit 2; }
cd $WT
OUT=/verif/work/confirm_$ID.log; : > $OUT
cp $SRC/seeded_demo.rs tests/seeded_demo.rs
res() { echo "$1" | tee -a $OUT; }
# without patch: demo must pass
timeout 900 cargo test --offline --test seeded_demo >> $OUT 2>&1; R0=$?
res "demo_without_patch_rc=$R0"
git apply $SRC/patch.diff >> $OUT 2>&1; RA=$?
res "apply_rc=$RA"
timeout 900 cargo test --offline --test seeded_demo >> $OUT 2>&1; R1=$?
res "demo_with_patch_rc=$R1"
# existing suite with patch (excluding the demo)
rm tests/seeded_demo.rs
timeout 2400 cargo test --workspace --no-fail-fast --offline --lib --tests >> $OUT 2>&1; RS=$?
res "suite_with_patch_rc=$RS"
# tests that failed in the suite run are re-run alone (load-dependent flakes such as
# write_buffer_size_* are known): a test that passes alone is counted as a flake
FAILED_TESTS=$(grep -E "^test .* \.\.\. FAILED" $OUT | grep -v seeded_demo | awk '{print $2}' | sort -u)
RS2=0
for t in $FAILED_TESTS; do
  ok=0
  for i in 1 2 3; do
    if timeout 600 cargo test --workspace --offline --lib --tests -- --exact "$t" >> $OUT 2>&1; then ok=1; break; fi
  done
  res "rerun $t ok=$ok"
  [ $ok = 1 ] || RS2=1
done
[ -z "$FAILED_TESTS" ] && RS2=$RS
res "suite_with_patch_after_reruns_rc=$RS2"
RS=$RS2
cd /
git -C /repo worktree remove --force $WT >/dev/null 2>&1
res "SUMMARY id=$ID apply=$RA demo_without=$R0 demo_with=$R1 suite_with=$RS"
