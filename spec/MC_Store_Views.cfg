\* C05: views (snapshots) against writes, clear, ingestion, rotation (pullup+gc), flush, compaction, version maintenance (1 keyspace, 2 keys, 2 ops, 3 maintenance steps, 2 views)
SPECIFICATION Spec
CONSTANTS
  Keys = {1, 2}
  Names = {"a"}
  MaxId = 1
  MaxOps = 2
  MaxReopen = 0
  MaxMaint = 3
  MaxViews = 2
  EnBatch = FALSE
  EnClear = TRUE
  EnIngest = TRUE
  EnKs = FALSE
  EnJRot = FALSE
  EnViews = TRUE
  EnCompact = TRUE
  EnPersist = FALSE
  EnRemove = TRUE
  FilterNames = {}
  FixCovered = TRUE
  FixSeqno = TRUE
  FixIdSeed = TRUE
  FixMetaSeqno = TRUE
  FixTrkZero = TRUE
VIEW View
CONSTRAINT Bounded
INVARIANTS PointEqScan ViewEqRef ViewsFrozen WatermarkBelowLive VisibleLeSeqno
CHECK_DEADLOCK FALSE
