\* C12: the same with two-item batches, incl. batches through the kept handle of a deleted keyspace (StaleBatch); 1 maintenance step
SPECIFICATION Spec
CONSTANTS
  Keys = {1}
  Names = {"a", "b"}
  MaxId = 3
  MaxOps = 2
  MaxReopen = 2
  MaxMaint = 1
  MaxViews = 0
  EnBatch = TRUE
  EnClear = FALSE
  EnIngest = FALSE
  EnKs = TRUE
  EnJRot = FALSE
  EnViews = FALSE
  EnCompact = FALSE
  EnPersist = FALSE
  EnRemove = FALSE
  FilterNames = {}
  FixCovered = TRUE
  FixSeqno = TRUE
  FixIdSeed = TRUE
  FixMetaSeqno = TRUE
  FixTrkZero = TRUE
VIEW View
CONSTRAINT Bounded
INVARIANTS PointEqScan ViewEqRef SeqnoAboveEntries SeqnoAboveJournal VisibleLeSeqno JournalsConsistent CrashSafe RecoveryNeverPanics DurableMatchesMemory DeletedNameAbsent FilesGone NoResurrection
CHECK_DEADLOCK FALSE
