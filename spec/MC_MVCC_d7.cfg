\* C06 / C05 / C14: 2 writer threads (one 2-item batch over 2 keyspaces), 2 version upgrades by workers, 2 views
SPECIFICATION Spec
CONSTANTS
  Threads = {1, 2}
  Cells <- CellsMC
  Programs <- ProgramsMC
  MaxUpgrades = 2
  MaxViews = 2
INVARIANTS NoFinding_D7
CHECK_DEADLOCK FALSE
