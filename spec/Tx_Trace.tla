------------------------------- MODULE Tx_Trace -------------------------------
(* Serializability of concurrently committing optimistic transactions, checked on traces of
   the real code: the harness logs, before commit(), what the transaction read (cell, value -
   absence = 0, every key of a scanned range) and what it writes; the hook event WPublish of
   the commit's batch (emitted under the journal mutex) is the commit point.  The commit order
   is a serial order: at its commit point every read of a committed transaction must equal the
   committed state, then its writes are applied.  A transaction refused with Conflict has no
   commit point and no effect; the final content must equal the model's. *)
EXTENDS Naturals, Sequences, FiniteSets, TLC, Json, IOUtils

CONSTANTS Threads
TraceRecs == ndJsonDeserialize(IOEnv.TRACE)
VARIABLES l, store, intent, stale
\* store: set of <<cell, value>> (absent cells: value 0); intent: [Threads -> record or empty]
vars == <<l, store, intent, stale>>
Ev == TraceRecs[l]
Cell(x) == <<x[1], x[2]>>
Val(c) == LET r == {p \in store : p[1] = c} IN IF r = {} THEN 0 ELSE (CHOOSE p \in r : TRUE)[2]
None == [reads |-> <<>>, writes |-> <<>>, set |-> FALSE]

TraceInit == l = 1 /\ store = {} /\ intent = [t \in Threads |-> None] /\ stale = {} /\ TLCSet(1, 1)

RECURSIVE ApplyW(_, _)
ApplyW(S, ws) == IF ws = <<>> THEN S
                 ELSE LET c == Cell(Head(ws)) IN
                      ApplyW({p \in S : p[1] # c} \cup {<<c, Head(ws)[3]>>}, Tail(ws))
StaleReads(t) == {i \in 1..Len(intent[t].reads) : Val(Cell(intent[t].reads[i])) # intent[t].reads[i][3]}

TraceNext ==
    /\ l <= Len(TraceRecs)
    /\ l' = l + 1
    /\ \/ /\ Ev.ev = "Reset" /\ store' = {} /\ intent' = [t \in Threads |-> None] /\ stale' = stale
       \/ /\ Ev.ev = "TxIntent"
          /\ intent' = [intent EXCEPT ![Ev.t] = [reads |-> Ev.reads, writes |-> Ev.writes, set |-> TRUE]]
          /\ UNCHANGED <<store, stale>>
       \* commit point of thread t's transaction (its batch is published)
       \/ /\ Ev.ev = "WPublish" /\ Ev.t \in Threads /\ intent[Ev.t].set
          /\ stale' = stale \cup (IF StaleReads(Ev.t) = {} THEN {} ELSE {<<l, Ev.t, intent[Ev.t].reads, store>>})
          /\ store' = ApplyW(store, intent[Ev.t].writes)
          /\ intent' = [intent EXCEPT ![Ev.t] = None]
       \/ /\ Ev.ev = "WPublish" /\ ~(Ev.t \in Threads /\ intent[Ev.t].set) /\ UNCHANGED <<store, intent, stale>>
       \* commit() returned: Ok must have had its commit point, Conflict must not
       \/ /\ Ev.ev = "TxResult"
          /\ (Ev.ok => ~intent[Ev.t].set \/ Len(intent[Ev.t].writes) = 0)
          /\ (~Ev.ok => intent[Ev.t].set)
          /\ intent' = [intent EXCEPT ![Ev.t] = None]
          /\ UNCHANGED <<store, stale>>
       \/ /\ Ev.ev = "Final" /\ Val(Cell(Ev.c)) = Ev.val /\ UNCHANGED <<store, intent, stale>>
       \/ /\ Ev.ev \notin {"Reset", "TxIntent", "WPublish", "TxResult", "Final"} /\ UNCHANGED <<store, intent, stale>>

TraceSpec == TraceInit /\ [][TraceNext]_vars

\* C07 on the recorded execution: every committed transaction read the committed state of its
\* commit point
Serializable == stale = {}

TrackL == TLCSet(1, IF l > TLCGet(1) THEN l ELSE TLCGet(1))
TraceAccepted ==
    LET d == TLCGet(1) IN
    IF d - 1 = Len(TraceRecs) THEN TRUE
    ELSE Print(<<"TRACE-REJECTED at event", d, TraceRecs[d]>>, FALSE)
=============================================================================
