------------------------------ MODULE MVCC_Trace ------------------------------
(* Validates traces of multi-threaded runs of the real code against FjallMVCC.
   Events (one NDJSON record each, globally ordered by the tracer mutex):
     hooks, emitted under the journal mutex:  WDraw t s / WApply t / WPublish t
     harness, emitted by the calling thread:  CallW t items  (before the write call)
                                              CallR t c / RetR t val        (get at SeqNo::MAX)
                                              SOpen t vid inst / SRead t vid c val / SClose t vid
                                              SCall t ... ScanRet t cells   (one plain scan)
                                              Final c val   (after all threads joined)   Reset
   Version upgrades inside lsm-tree are not hooked: UDraw / UBump are silent steps, taken only
   when the next logged event requires them (a drawn seqno above the model's counter, a snapshot
   instant above the model's visible seqno). *)
EXTENDS FjallMVCC, Json, IOUtils, SequencesExt

TraceRecs == ndJsonDeserialize(IOEnv.TRACE)
VARIABLES l,
          pendop,   \* [Threads -> items of the write call in flight]
          rd,       \* [Threads -> [c, seen]] plain read in flight: values the cell had since the call
          okf,      \* TRUE: the D7 waiver is allowed for this trace check
          allup,    \* seqnos the model attributed to version upgrades
          vopen     \* [Threads -> values the visible seqno had since the thread called snapshot()] ({} = no call pending)
Ev == TraceRecs[l]
tvars == <<vars, l, pendop, rd, okf, vopen, allup>>

Cell(x) == <<x[1], x[2]>>
RECURSIVE ItemsOf(_)
ItemsOf(s) == IF s = <<>> THEN <<>> ELSE << <<Cell(Head(s)), Head(s)[3]>> >> \o ItemsOf(Tail(s))

NoRd == [c |-> <<0, 0>>, seen |-> {}]

TraceInit ==
    /\ Init /\ l = 1
    /\ pendop = [t \in Threads |-> <<>>]
    /\ rd = [t \in Threads |-> NoRd]
    /\ okf = TRUE
    /\ vopen = [t \in Threads |-> {}]
    /\ allup = {}
    /\ TLCSet(1, 1)

Consume == l' = l + 1
Keep(vs) == UNCHANGED vs

\* every Apply may change what pending plain reads are allowed to return
NoteApplied(c, v) == [t \in Threads |-> IF rd[t].c = c THEN [rd[t] EXCEPT !.seen = @ \cup {v}] ELSE rd[t]]

ResetAll ==
    /\ seqno' = Ev.seqno /\ visible' = Ev.vis /\ lock' = 0
    /\ w' = [t \in Threads |-> Idle] /\ pcnt' = [t \in Threads |-> 0]
    /\ ents' = {} /\ pend' = {} /\ nup' = 0
    /\ views' = {} /\ nviews' = 0 /\ seenv' = <<>> /\ kf7' = FALSE
    /\ pendop' = [t \in Threads |-> <<>>] /\ rd' = [t \in Threads |-> NoRd]
    /\ vopen' = [t \in Threads |-> {}]

NoteVisible(nv) == [t \in Threads |-> IF vopen[t] = {} THEN {} ELSE vopen[t] \cup {nv}]

\* every hook event logs the shared counters as read when it was emitted (after its own state
\* change): before the next event is consumed the model catches up with them.  Seqnos skipped
\* that way were drawn by version upgrades; a visible seqno raised above an in-flight write is
\* the D7 signature.
Prev == TraceRecs[l - 1]
NeedSync == /\ l > 1 /\ l - 1 <= Len(TraceRecs) /\ "seqno" \in DOMAIN Prev /\ Prev.ev # "Reset"
            /\ (Prev.seqno > seqno \/ Prev.vis > visible)
SyncStep ==
    /\ seqno' = IF Prev.seqno > seqno THEN Prev.seqno ELSE seqno
    /\ visible' = IF Prev.vis > visible THEN Prev.vis ELSE visible
    /\ pend' = pend \cup {x \in seqno..(seqno' - 1) : TRUE}
    /\ kf7' = (kf7 \/ (Prev.vis > visible /\ \E t \in InFlight : w[t].s < Prev.vis))
    /\ vopen' = NoteVisible(visible')
    /\ UNCHANGED <<lock, w, pcnt, ents, nup, views, nviews, seenv, l, pendop, rd, okf>>

TraceNext ==
  IF NeedSync THEN SyncStep ELSE
    /\ l <= Len(TraceRecs)
    /\ \/ /\ Ev.ev = "Reset" /\ ResetAll /\ Consume /\ Keep(okf)
       \* ---- harness events
       \/ /\ Ev.ev = "CallW" /\ Consume
          /\ pendop' = [pendop EXCEPT ![Ev.t] = ItemsOf(Ev.items)]
          /\ Keep(<<vars, rd, okf, vopen>>)
       \/ /\ Ev.ev = "RetW" /\ Consume /\ w[Ev.t].st = "idle"
          /\ Keep(<<vars, pendop, rd, okf, vopen>>)
       \* ---- hooks
       \/ /\ Ev.ev = "WDraw" /\ seqno = Ev.s
          /\ w[Ev.t].st = "idle" /\ lock = 0
          /\ lock' = Ev.t
          /\ w' = [w EXCEPT ![Ev.t] = [st |-> "drawn", s |-> seqno, items |-> pendop[Ev.t], ai |-> 0]]
          /\ seqno' = seqno + 1
          /\ Consume
          /\ Keep(<<visible, pcnt, ents, pend, nup, views, nviews, seenv, kf7, pendop, rd, okf, vopen>>)
       \* the WDraw event is emitted after seqno.next(): a seqno the model had attributed to a
       \* silent version upgrade (because later events already showed higher counters) turns out
       \* to be this writer's.  If visible is already above it, that is the D7 signature.
       \/ /\ Ev.ev = "WDraw" /\ Ev.s < seqno /\ Ev.s \in (pend \cup allup)
          /\ w[Ev.t].st = "idle" /\ lock = 0
          /\ lock' = Ev.t
          /\ w' = [w EXCEPT ![Ev.t] = [st |-> "drawn", s |-> Ev.s, items |-> pendop[Ev.t], ai |-> 0]]
          /\ pend' = pend \ {Ev.s}
          /\ kf7' = (kf7 \/ visible > Ev.s)
          /\ Consume
          /\ Keep(<<seqno, visible, pcnt, ents, nup, views, nviews, seenv, pendop, rd, okf, vopen>>)
       \/ /\ Ev.ev = "WApply" /\ w[Ev.t].ai < Len(w[Ev.t].items)
          /\ w[Ev.t].items[w[Ev.t].ai + 1][1][2] # 0
          /\ Apply(Ev.t) /\ Consume
          /\ rd' = NoteApplied(w[Ev.t].items[w[Ev.t].ai + 1][1], w[Ev.t].items[w[Ev.t].ai + 1][2])
          /\ Keep(<<pendop, okf, vopen>>)
       \* clear of a keyspace (announced as an item with key 0): every cell of the keyspace written
       \* so far gets a tombstone at the clear's seqno (older views keep reading the old version)
       \/ /\ Ev.ev = "WApply" /\ w[Ev.t].ai < Len(w[Ev.t].items)
          /\ w[Ev.t].items[w[Ev.t].ai + 1][1][2] = 0
          /\ LET ks == w[Ev.t].items[w[Ev.t].ai + 1][1][1]
                 cs == {e.c : e \in {x \in ents : x.c[1] = ks}}
             IN /\ ents' = ents \cup {[c |-> c, s |-> w[Ev.t].s, v |-> 0] : c \in cs}
                /\ rd' = [t \in Threads |-> IF rd[t].c \in cs THEN [rd[t] EXCEPT !.seen = @ \cup {0}] ELSE rd[t]]
          /\ w' = [w EXCEPT ![Ev.t].ai = @ + 1, ![Ev.t].st = "applying"]
          \* (tree.clear() is a version upgrade inside the critical section; its effect on the
          \* counters is picked up by the counter sync after this event)
          /\ Consume
          /\ Keep(<<seqno, visible, lock, pcnt, pend, nup, views, nviews, seenv, kf7, pendop, okf, vopen>>)
       \/ /\ Ev.ev = "WPublish" /\ w[Ev.t].st # "published" /\ Publish(Ev.t) /\ Consume /\ Keep(<<pendop, rd, okf>>)
          /\ vopen' = NoteVisible(visible')
       \* the publish was already observed by a snapshot() of another thread (the hook event is
       \* emitted after the atomic store): only the mutex is released here
       \/ /\ Ev.ev = "WPublish" /\ w[Ev.t].st = "published" /\ lock = Ev.t /\ Consume
          /\ lock' = 0 /\ w' = [w EXCEPT ![Ev.t] = Idle]
          /\ Keep(<<seqno, visible, pcnt, ents, pend, nup, views, nviews, seenv, kf7, pendop, rd, okf, vopen>>)
       \/ /\ Ev.ev \in {"WJournal", "WPersisted", "PCall", "PRet"} /\ Consume /\ Keep(<<vars, pendop, rd, okf, vopen>>)
       \/ /\ Ev.ev \in {"FlushBegin", "FlushEnd", "CompactBegin", "CompactEnd"} /\ Consume /\ Keep(<<vars, pendop, rd, okf, vopen>>)
       \* ---- plain reads at SeqNo::MAX: the value returned must be one the cell had between
       \* the call and the return
       \/ /\ Ev.ev = "CallR" /\ Consume
          /\ rd' = [rd EXCEPT ![Ev.t] = [c |-> Cell(Ev.c), seen |-> {Cur(Cell(Ev.c))}]]
          /\ Keep(<<vars, pendop, okf, vopen>>)
       \/ /\ Ev.ev = "RetR" /\ Consume
          \* ... or the value an in-flight writer is applying right now (its WApply event is
          \* emitted after the memtable insert, so a concurrent get can be ahead of the log)
          /\ \/ Ev.val \in rd[Ev.t].seen
             \/ \E t2 \in Threads : /\ w[t2].st \in {"drawn", "applying"} /\ w[t2].ai < Len(w[t2].items)
                                     /\ w[t2].items[w[t2].ai + 1][1] = rd[Ev.t].c
                                     /\ w[t2].items[w[t2].ai + 1][2] = Ev.val
             \* ... likewise a clear of the cell's keyspace that is being applied right now (announced
             \* as an item with key 0; tree.clear() runs before its WApply event is emitted)
             \/ /\ Ev.val = 0
                /\ \E t2 \in Threads : /\ w[t2].st \in {"drawn", "applying"} /\ w[t2].ai < Len(w[t2].items)
                                        /\ w[t2].items[w[t2].ai + 1][1][2] = 0
                                        /\ w[t2].items[w[t2].ai + 1][1][1] = rd[Ev.t].c[1]
          /\ rd' = [rd EXCEPT ![Ev.t] = NoRd]
          /\ Keep(<<vars, pendop, okf, vopen>>)
       \* ---- snapshots
       \* snapshot(): the instant is the visible seqno at some point between the call and the
       \* return (both logged outside any lock)
       \/ /\ Ev.ev = "SCall" /\ Consume
          /\ vopen' = [vopen EXCEPT ![Ev.t] = {visible}]
          /\ Keep(<<vars, pendop, rd, okf>>)
       \/ /\ Ev.ev = "SOpen" /\ Consume
          /\ \/ Ev.inst \in vopen[Ev.t]
             \* a bump the model applied late (or folded into a later one): the instant is the
             \* bump value of an upgrade, within the window of the call
             \/ /\ Ev.inst - 1 \in allup /\ Ev.inst <= visible
                /\ \E x \in vopen[Ev.t] : x <= Ev.inst
          /\ views' = views \cup {[vid |-> Ev.vid, inst |-> Ev.inst]}
          /\ vopen' = [vopen EXCEPT ![Ev.t] = {}]
          /\ Keep(<<seqno, visible, lock, w, pcnt, ents, pend, nup, nviews, seenv, kf7, pendop, rd, okf>>)
       \/ /\ Ev.ev = "SRead" /\ Consume
          \* (downstream of the D7 signature a view is not frozen any more: waived)
          /\ (kf7 \/ \E v \in views : v.vid = Ev.vid /\ ValAt(Cell(Ev.c), v.inst) = Ev.val)
          /\ Keep(<<vars, pendop, rd, okf, vopen>>)
       \* ---- a plain scan (Keyspace::iter / range / prefix, no snapshot object): the cells it
       \* returned must be the committed state at ONE instant the visible seqno had between the call
       \* (SCall) and the return - or the instant a fully applied writer has published already
       \* although its WPublish event is not logged yet (the hook fires after the atomic store)
       \/ /\ Ev.ev = "ScanRet" /\ Consume
          /\ LET insts == vopen[Ev.t] \cup
                          {w[t2].s + 1 : t2 \in {x \in Threads : /\ w[x].st \in {"drawn", "applying"}
                                                                /\ Len(w[x].items) > 0
                                                                /\ w[x].ai = Len(w[x].items)}}
             IN kf7 \/ \E i \in insts : \A n \in 1..Len(Ev.cells) :
                          ValAt(Cell(Ev.cells[n]), i) = Ev.cells[n][3]
          /\ vopen' = [vopen EXCEPT ![Ev.t] = {}]
          /\ Keep(<<vars, pendop, rd, okf>>)
       \/ /\ Ev.ev = "SClose" /\ Consume
          /\ views' = {v \in views : v.vid # Ev.vid}
          /\ Keep(<<seqno, visible, lock, w, pcnt, ents, pend, nup, nviews, seenv, kf7, pendop, rd, okf, vopen>>)
       \/ /\ Ev.ev = "Final" /\ Cur(Cell(Ev.c)) = Ev.val /\ Consume /\ Keep(<<vars, pendop, rd, okf, vopen>>)
       \* ---- silent steps of version upgrades, forced by the next event
       \/ /\ Ev.ev = "WDraw" /\ seqno < Ev.s
          /\ pend' = pend \cup {seqno} /\ seqno' = seqno + 1
          /\ Keep(<<visible, lock, w, pcnt, ents, nup, views, nviews, seenv, kf7, l, pendop, rd, okf, vopen>>)
       \/ /\ Ev.ev = "SOpen" /\ Ev.inst \notin vopen[Ev.t] /\ visible < Ev.inst
          /\ \/ /\ \E t2 \in Threads :
                     /\ w[t2].st \in {"drawn", "applying"} /\ w[t2].ai = Len(w[t2].items)
                     /\ w[t2].s + 1 <= Ev.inst /\ w[t2].s + 1 > visible
                     /\ visible' = w[t2].s + 1
                     /\ w' = [w EXCEPT ![t2].st = "published"]
                /\ vopen' = NoteVisible(visible')
                /\ Keep(<<seqno, lock, pcnt, ents, pend, nup, views, nviews, seenv, kf7>>)
             \/ /\ \E u \in pend : u + 1 <= Ev.inst /\ u + 1 > visible /\ UBump(u)
                /\ vopen' = NoteVisible(visible')
             \* the upgrade that raised visible drew its seqno after the last logged draw
             \/ /\ ~(\E u \in pend : u + 1 <= Ev.inst /\ u + 1 > visible)
                /\ seqno < Ev.inst
                /\ pend' = pend \cup {seqno} /\ seqno' = seqno + 1
                /\ Keep(<<visible, lock, w, pcnt, ents, nup, views, nviews, seenv, kf7, vopen>>)
          /\ Keep(<<l, pendop, rd, okf>>)

TraceNextA == TraceNext /\ allup' = (IF l <= Len(TraceRecs) /\ Ev.ev = "Reset" THEN {} ELSE allup \cup pend')
TraceSpec == TraceInit /\ [][TraceNextA]_tvars

\* frozen-ness in trace form: a live view never lies above an in-flight write
TraceNoTornBatch == kf7 \/ NoTornBatch
TraceNoTornBatchStrict == NoTornBatch

TrackL == TLCSet(1, IF l > TLCGet(1) THEN l ELSE TLCGet(1))
TraceAccepted ==
    LET d == TLCGet(1) IN
    IF d - 1 = Len(TraceRecs) THEN TRUE
    ELSE Print(<<"TRACE-REJECTED at event", d, TraceRecs[d]>>, FALSE)
=============================================================================
