\* C12: keyspace create / delete / re-create / reopen (2 names, 1 key, 2 ops, 2 maintenance steps, 2 reopens)
SPECIFICATION Spec
CONSTANTS
  Keys = {1}
  Names = {"a", "b"}
  MaxId = 3
  MaxOps = 2
  MaxReopen = 2
  MaxMaint = 2
  MaxViews = 0
  EnBatch = FALSE
  EnClear = FALSE
  EnIngest = FALSE
  EnKs = TRUE
  EnJRot = FALSE
  EnViews = FALSE
  EnCompact = FALSE
  EnPersist = FALSE
  EnRemove = FALSE
  FilterNames = {}
  FixCovered = TRUE
  FixSeqno = TRUE
  FixIdSeed = TRUE
  FixMetaSeqno = TRUE
  FixTrkZero = TRUE
VIEW View
CONSTRAINT Bounded
INVARIANTS PointEqScan ViewEqRef SeqnoAboveEntries SeqnoAboveJournal VisibleLeSeqno JournalsConsistent CrashSafe RecoveryNeverPanics DurableMatchesMemory DeletedNameAbsent FilesGone NoResurrection
CHECK_DEADLOCK FALSE
