------------------------------ MODULE FjallOptions ------------------------------
(***************************************************************************)
(* Keyspace options: how the configuration a keyspace was created with is   *)
(* stored (rows 'c' + id + option name in the meta keyspace, written by one *)
(* ingestion with one seqno), which rows exist for which configuration      *)
(* (strategy-specific rows, key-value-separation rows only when enabled),   *)
(* how deletion tombstones the rows that are visible at that moment, how    *)
(* the meta tree's own compaction drops shadowed entries, how recovery      *)
(* decodes the rows of each id (from_kvs: the strategy name selects the     *)
(* strategy rows, the 'blob' row selects the separation rows, a missing     *)
(* mandatory row is a panic), how ids are handed out and re-seeded, and     *)
(* that Database::keyspace ignores the passed options for an existing name. *)
(* Serves C16.  Option VALUES are abstract classes here; that each class    *)
(* round-trips through the byte encoding is what the replay decides on      *)
(* concrete representatives.                                                *)
(***************************************************************************)
EXTENDS Naturals, Sequences, FiniteSets, TLC

CONSTANTS
    Names,          \* keyspace names
    Cfgs,           \* abstract configurations: [strat, sp, blob, manual, mem, pol]
    MaxId,
    MaxReopen,
    MaxOps,
    IdsFromJournal, \* TRUE: the id counter is also raised above ids still referenced by a journal (fix 41140af)
    SeqnoFromMeta   \* TRUE: the seqno counter is restored above the meta keyspace's entries (fix 935a2f7)

\* strat \in {"leveled", "fifo"}; sp = strategy parameter class (for fifo: "ttl" / "nottl" matter for the rows)
\* blob \in {"none", "b1", "b2"}

BaseRows == {"strategy", "manual", "mem", "pol"}
StratRows(c) == IF c.strat = "leveled" THEN {"lev_params"} ELSE {"fifo_limit", "fifo_ttl", "fifo_ttl_seconds"}
BlobRows(c) == IF c.blob = "none" THEN {} ELSE {"blob", "blob_params"}
RowNames(c) == BaseRows \cup StratRows(c) \cup BlobRows(c)
AllRowNames == BaseRows \cup {"lev_params", "fifo_limit", "fifo_ttl", "fifo_ttl_seconds", "blob", "blob_params", "name"}

\* encode_kvs: the value stored under each row
RowVal(c, r) ==
    CASE r = "strategy" -> c.strat
      [] r = "manual" -> IF c.manual THEN "1" ELSE "0"
      [] r = "mem" -> c.mem
      [] r = "pol" -> c.pol
      [] r = "lev_params" -> c.sp
      [] r = "fifo_limit" -> c.sp
      [] r = "fifo_ttl" -> IF c.sp = "ttl" THEN "1" ELSE "0"
      [] r = "fifo_ttl_seconds" -> IF c.sp = "ttl" THEN "secs" ELSE "empty"
      [] r = "blob" -> "1"
      [] r = "blob_params" -> c.blob

VARIABLES
    meta,       \* set of entries [id, row, s, v]  (v = "TOMB" for a tombstone); the meta keyspace
    mem,        \* [name -> [id, cfg, ok]] for the keyspaces of the running instance (ok = FALSE: decoding panicked)
    live,       \* names that exist
    seqno, nextId,
    jids,       \* keyspace ids still referenced by journal records
    created,    \* history: [name -> cfg the current incarnation was created with]
    nreopen, nops,
    lastOpen    \* history: [name, passed, got, want] of the last keyspace() call on an existing name

vars == <<meta, mem, live, seqno, nextId, jids, created, nreopen, nops, lastOpen>>

NoCfg == [strat |-> "-", sp |-> "-", blob |-> "-", manual |-> FALSE, mem |-> "-", pol |-> "-"]

\* newest entry of (id, row); none -> absent
Visible(id, r) ==
    LET es == {e \in meta : e.id = id /\ e.row = r} IN
    IF es = {} THEN "ABSENT"
    ELSE LET e == CHOOSE e \in es : \A f \in es : f.s <= e.s IN IF e.v = "TOMB" THEN "ABSENT" ELSE e.v
VisibleRows(id) == {r \in AllRowNames : Visible(id, r) # "ABSENT"}

\* from_kvs
DecodePanics(id) ==
    LET g(r) == Visible(id, r) IN
    \/ \E r \in BaseRows : g(r) = "ABSENT"
    \/ g("strategy") = "leveled" /\ g("lev_params") = "ABSENT"
    \/ g("strategy") = "fifo" /\ (g("fifo_limit") = "ABSENT" \/ g("fifo_ttl") = "ABSENT")
    \/ g("strategy") = "fifo" /\ g("fifo_ttl") = "1" /\ g("fifo_ttl_seconds") = "ABSENT"
    \/ g("blob") # "ABSENT" /\ g("blob_params") = "ABSENT"
Decode(id) ==
    LET g(r) == Visible(id, r) IN
    IF DecodePanics(id) THEN NoCfg
    ELSE [strat |-> g("strategy"),
          sp |-> IF g("strategy") = "leveled" THEN g("lev_params")
                 ELSE IF g("fifo_ttl") = "1" THEN "ttl" ELSE "nottl",
          blob |-> IF g("blob") = "ABSENT" THEN "none" ELSE g("blob_params"),
          manual |-> g("manual") = "1",
          mem |-> g("mem"), pol |-> g("pol")]

Init ==
    /\ meta = {} /\ mem = [n \in {} |-> 0] /\ live = {}
    /\ seqno = 0 /\ nextId = 1 /\ jids = {}
    /\ created = [n \in {} |-> 0]
    /\ nreopen = 0 /\ nops = 0
    /\ lastOpen = [name |-> "-", passed |-> NoCfg, got |-> NoCfg, want |-> NoCfg]

\* Database::keyspace on a new name: id from the counter, rows by one ingestion (one seqno)
Create(n, c) ==
    /\ n \notin live /\ nextId <= MaxId /\ nops < MaxOps
    /\ meta' = meta \cup {[id |-> nextId, row |-> r, s |-> seqno, v |-> RowVal(c, r)] : r \in RowNames(c)}
                    \cup {[id |-> nextId, row |-> "name", s |-> seqno, v |-> n]}
    /\ mem' = [x \in DOMAIN mem \cup {n} |-> IF x = n THEN [id |-> nextId, cfg |-> c, ok |-> TRUE] ELSE mem[x]]
    /\ live' = live \cup {n}
    /\ created' = [x \in DOMAIN created \cup {n} |-> IF x = n THEN c ELSE created[x]]
    /\ seqno' = seqno + 1 /\ nextId' = nextId + 1 /\ nops' = nops + 1
    /\ UNCHANGED <<jids, nreopen, lastOpen>>

\* Database::keyspace on an existing name: the handle in the map, whatever options are passed
OpenExisting(n, c) ==
    /\ n \in live /\ nops < MaxOps
    /\ lastOpen' = [name |-> n, passed |-> c, got |-> mem[n].cfg, want |-> created[n]]
    /\ nops' = nops + 1
    /\ UNCHANGED <<meta, mem, live, seqno, nextId, jids, created, nreopen>>

\* a write through the keyspace leaves its id in the journal
Write(n) ==
    /\ n \in live /\ mem[n].ok /\ mem[n].id \notin jids
    /\ jids' = jids \cup {mem[n].id}
    /\ UNCHANGED <<meta, mem, live, seqno, nextId, created, nreopen, nops, lastOpen>>

\* delete_keyspace: tombstones for every config row visible now, and for the name row
Delete(n) ==
    /\ n \in live /\ mem[n].ok /\ nops < MaxOps
    /\ LET id == mem[n].id IN
       meta' = meta \cup {[id |-> id, row |-> r, s |-> seqno, v |-> "TOMB"] : r \in VisibleRows(id)}
    /\ live' = live \ {n}
    /\ mem' = [x \in DOMAIN mem \ {n} |-> mem[x]]
    /\ seqno' = seqno + 1 /\ nops' = nops + 1
    /\ UNCHANGED <<nextId, jids, created, nreopen, lastOpen>>

\* compaction of the meta tree: entries shadowed by a newer entry of the same key go; a
\* tombstone that shadows nothing any more goes as well
MetaCompact ==
    /\ LET keep == {e \in meta : \A f \in meta : (f.id = e.id /\ f.row = e.row) => f.s <= e.s}
           m2 == {e \in keep : e.v # "TOMB"}
       IN /\ m2 # meta /\ meta' = m2
    /\ UNCHANGED <<mem, live, seqno, nextId, jids, created, nreopen, nops, lastOpen>>

\* the journal is evicted (its keyspaces were flushed or deleted)
JournalEvict ==
    /\ jids # {} /\ jids' = {}
    /\ UNCHANGED <<meta, mem, live, seqno, nextId, created, nreopen, nops, lastOpen>>

MaxOf(S) == IF S = {} THEN 0 ELSE CHOOSE x \in S : \A y \in S : y <= x

\* close and reopen: keyspaces = ids with a visible name row; configuration decoded from the rows;
\* id counter = above every keyspace folder (live ids) and every id referenced by a journal;
\* seqno = above every data entry (not modelled: 0) and above the meta keyspace's entries
Reopen ==
    /\ nreopen < MaxReopen
    /\ LET ids == {e.id : e \in {x \in meta : x.row = "name"}}
           liveIds == {id \in ids : Visible(id, "name") # "ABSENT"}
           nameOf(id) == Visible(id, "name")
       IN /\ live' = {nameOf(id) : id \in liveIds}
          /\ mem' = [n \in {nameOf(id) : id \in liveIds} |->
                        LET id == CHOOSE i \in liveIds : nameOf(i) = n IN
                        [id |-> id, cfg |-> Decode(id), ok |-> ~DecodePanics(id)]]
          \* (recover_keyspaces starts its scan at 1: the counter is never below 2 after a recovery)
          /\ nextId' = MaxOf({1} \cup liveIds \cup (IF IdsFromJournal THEN jids ELSE {})) + 1
          /\ seqno' = IF SeqnoFromMeta THEN MaxOf({e.s : e \in meta}) + 1 ELSE 0
    /\ nreopen' = nreopen + 1
    /\ UNCHANGED <<meta, jids, created, nops, lastOpen>>

Next ==
    \/ \E n \in Names, c \in Cfgs : Create(n, c) \/ OpenExisting(n, c)
    \/ \E n \in Names : Write(n) \/ Delete(n)
    \/ MetaCompact \/ JournalEvict \/ Reopen

Spec == Init /\ [][Next]_vars

\* ---------------------------------------------------------------------------------------
\* C16

\* the options in force are the ones the keyspace was created with - at any time, after any
\* number of reopens
InForce == \A n \in live : mem[n].ok /\ mem[n].cfg = created[n]
\* the stored form of a live keyspace is exactly the rows of its configuration (nothing of an
\* earlier holder of the id shines through, nothing is missing)
StoredExact == \A n \in live : mem[n].ok => VisibleRows(mem[n].id) = RowNames(created[n]) \cup {"name"}
DecodeOfStored == \A n \in live : mem[n].ok => Decode(mem[n].id) = created[n]
\* nothing of a deleted keyspace is left behind in the stored form
NoDeadRows == \A id \in 1..MaxId : (\A n \in live : mem[n].id # id) => VisibleRows(id) = {}
\* keyspace() on an existing name hands out the configuration in force, not the passed one
OpenIgnoresPassed == lastOpen.got = lastOpen.want
\* no two live keyspaces share an id
IdsDistinct == \A a, b \in live : mem[a].id = mem[b].id => a = b
=============================================================================
