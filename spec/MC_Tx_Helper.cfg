\* C07: 2 optimistic transactions (<= 2 operations: get, scan, insert) against the single-operation helpers of the keyspace (<= 2 helper operations)
SPECIFICATION Spec
CONSTANTS
  Txs = {1, 2}
  Keys = {1, 2}
  KsSplit = 100
  MaxOpsPerTx = 2
  Methods = {"get", "scan", "insert", "helper"}
  SingleWriter = FALSE
  EnGC = FALSE
  FixSizeOf = TRUE
  FixDoubleClose = TRUE
VIEW TxViewBase
INVARIANTS Serializable NoEffectUnlessCommitted CommitIsFinalWrites
CHECK_DEADLOCK FALSE
