------------------------------ MODULE MC_MVCC ------------------------------
EXTENDS FjallMVCC
C1 == <<1, 1>>
C2 == <<2, 1>>
CellsMC == {C1, C2}
\* thread 1: a 2-item batch over two keyspaces, then a single write; thread 2: two single writes
ProgramsMC == [t \in {1, 2} |-> IF t = 1 THEN << << <<C1, 11>>, <<C2, 12>> >>, << <<C1, 13>> >> >>
                                ELSE << << <<C2, 21>> >>, << <<C1, 22>> >> >>]
=============================================================================
