\* C01: ordered-map equivalence under maintenance (1 keyspace, 2 keys, 4 ops, 4 maintenance steps)
SPECIFICATION Spec
CONSTANTS
  Keys = {1, 2}
  Names = {"a"}
  MaxId = 1
  MaxOps = 4
  MaxReopen = 0
  MaxMaint = 4
  MaxViews = 0
  EnBatch = FALSE
  EnClear = TRUE
  EnIngest = TRUE
  EnKs = FALSE
  EnJRot = FALSE
  EnViews = FALSE
  EnCompact = TRUE
  EnPersist = FALSE
  EnRemove = TRUE
  FilterNames = {}
  FixCovered = TRUE
  FixSeqno = TRUE
  FixIdSeed = TRUE
  FixMetaSeqno = TRUE
  FixTrkZero = TRUE
VIEW View
CONSTRAINT Bounded
INVARIANTS PointEqScan ViewEqRef SeqnoAboveEntries SeqnoAboveJournal VisibleLeSeqno JournalsConsistent CrashSafe RecoveryNeverPanics
CHECK_DEADLOCK FALSE
