\* C13: one injected journal I/O error at any append / flush / sync of any operation kind, 2 writer threads
SPECIFICATION Spec
CONSTANTS
  Threads = {1, 2}
  MaxOps = 3
  Kinds = {"w", "c", "b"}
  ManualKs = FALSE
  ManualDb = FALSE
  PersistShortcut = FALSE
  SyncBatchSyncs = TRUE
  MaxFaults = 1
  EnPersistCall = TRUE
  FixPoisonAppend = TRUE
  ClearFlushes = TRUE
INVARIANTS FailStop CrashRecoversAcked AckedBeforeFaultRecovered SyncOrder MutualExclusion ClearDropsTablesOnlyWithRecord
CHECK_DEADLOCK FALSE
