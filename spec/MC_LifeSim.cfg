\* behaviour generation for the C17 replay
SPECIFICATION SimSpec
CONSTANTS
  NWorkers = 2
  MaxAttempts = 6
  MaxDb = 3
  MaxKs = 3
  MaxSends = 4
  QCap = 3
  Markers = {"none", "short", "badmagic", "v1", "v2", "v3x", "future", "v3"}
  ExitOrder = "rel_first"
  FailCounts = TRUE
  WorkerMayFail = FALSE
  AdoptGuard = TRUE
  WeakMessager = TRUE
  CloseSend = "try"
  DrainInLoop = TRUE
INVARIANT ExportHist
CHECK_DEADLOCK FALSE
