\* C18: compaction filters assigned by name (a: filtered, b: not), key 1 -> Remove, key 2 -> ReplaceValue, key 3 -> Keep (3 keys, 3 ops, 4 maintenance steps, 1 reopen)
SPECIFICATION Spec
CONSTANTS
  Keys = {1, 2, 3}
  Names = {"a", "b"}
  MaxId = 2
  MaxOps = 3
  MaxReopen = 1
  MaxMaint = 4
  MaxViews = 0
  EnBatch = FALSE
  EnClear = FALSE
  EnIngest = FALSE
  EnKs = FALSE
  EnJRot = FALSE
  EnViews = FALSE
  EnCompact = TRUE
  EnPersist = FALSE
  EnRemove = TRUE
  FilterNames = {"a"}
  FixCovered = TRUE
  FixSeqno = TRUE
  FixIdSeed = TRUE
  FixMetaSeqno = TRUE
  FixTrkZero = TRUE
VIEW View
CONSTRAINT Bounded
INVARIANTS PointEqScan ViewEqRef FilteredFormOnly AssignedIffAssigner SeqnoAboveEntries
PROPERTY FilteredIsSticky
CHECK_DEADLOCK FALSE
