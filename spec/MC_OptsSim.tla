------------------------------ MODULE MC_OptsSim ------------------------------
(* FjallOptions under TLC's simulator over the full product of configuration classes, with the
   action history (action, name, configuration class, live names, configuration in force per
   name) carried along; one behaviour per line for the replay harness. *)
EXTENDS FjallOptions, Json
CONSTANT SimDepth
VARIABLE hist

Strats == {[strat |-> "leveled", sp |-> x] : x \in {"l1", "l2", "l3", "l4"}} \cup {[strat |-> "fifo", sp |-> x] : x \in {"ttl", "nottl"}}
CfgsSim == {[strat |-> s.strat, sp |-> s.sp, blob |-> b, manual |-> m, mem |-> me, pol |-> p] :
              s \in Strats, b \in {"none", "b1", "b2"}, m \in BOOLEAN, me \in {"m1", "m2", "m3"}, p \in {"p1", "p2", "p3", "p4"}}

Rec(a, n, c) == [a |-> a, n |-> n, c |-> c, live |-> live', inforce |-> [x \in live' |-> mem'[x].cfg],
                 ids |-> [x \in live' |-> mem'[x].id]]
SimInit == Init /\ hist = <<>>
SimNext ==
    \/ \E n \in Names, c \in Cfgs : Create(n, c) /\ hist' = Append(hist, Rec("Create", n, c))
    \* (two passed configurations are enough here: the replay passes fresh random options anyway)
    \/ \E n \in Names, c \in {x \in Cfgs : x.pol = "p2" /\ x.mem = "m3" /\ x.blob = "b2" /\ x.manual /\ x.sp \in {"l2", "ttl"}} :
          OpenExisting(n, c) /\ hist' = Append(hist, Rec("OpenExisting", n, c))
    \/ \E n \in Names : Write(n) /\ hist' = Append(hist, Rec("Write", n, NoCfg))
    \/ \E n \in Names : Delete(n) /\ hist' = Append(hist, Rec("Delete", n, NoCfg))
    \/ MetaCompact /\ hist' = Append(hist, Rec("MetaCompact", "-", NoCfg))
    \/ JournalEvict /\ hist' = Append(hist, Rec("JournalEvict", "-", NoCfg))
    \/ Reopen /\ hist' = Append(hist, Rec("Reopen", "-", NoCfg))
SimSpec == SimInit /\ [][SimNext]_<<vars, hist>>
ExportHist == TLCGet("level") = SimDepth => PrintT(<<"BEHAVIOUR", ToJson(hist)>>)
=============================================================================
