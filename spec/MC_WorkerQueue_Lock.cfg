\* C14: a writer's progress never depends on room in the worker queue (2 workers, queue capacity 2, 8 writes)
SPECIFICATION Spec
CONSTANTS
  NWorkers = 2
  QCap = 2
  MaxWrites = 8
  SendUnderLock = FALSE
  FlushTrySend = FALSE
  InlineFlush = TRUE
INVARIANTS NoSendUnderLock WritersNeverStuck TasksAnnounced
CHECK_DEADLOCK FALSE
