\* C03 / C15: <= 2 batches x 1 entry; every cut cell (with / without zero padding) and every single-cell alteration
SPECIFICATION Spec
CONSTANTS
  Shapes <- ShapesQuick
  MaxBatches = 2
  Garbage <- GarbageVals
INVARIANTS ExportOutcome
CHECK_DEADLOCK FALSE
