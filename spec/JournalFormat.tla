--------------------------- MODULE JournalFormat ---------------------------
(***************************************************************************)
(* The journal file as a sequence of cells, and the reader as a state       *)
(* machine: the transcription of Entry::decode_from, JournalReader::next    *)
(* and JournalBatchReader::next / on_close.  A cell is one field of a       *)
(* marker (tag, count, seqno, value type, compression, keyspace id, key     *)
(* length, value length, on-disk length, one key byte, one data byte,       *)
(* checksum, trailer magic).  The preallocated tail of the file reads as    *)
(* zero cells.  Serves C03 (every cut point, with and without zero padding) *)
(* and the second sentence of C15 (every single-cell alteration).           *)
(***************************************************************************)
EXTENDS Naturals, Sequences, FiniteSets, TLC

CONSTANTS
    Shapes,      \* set of batch shapes; a shape is a sequence of item descriptors
    MaxBatches,  \* number of batches written
    Garbage      \* set of replacement values tried for an altered cell

\* item descriptors: [op |-> "put"|"del"|"clear", ks |-> 1..2, k |-> key byte, v |-> 0 (empty) | value byte, z |-> compressed?]
L(c, x, w) == [t |-> "n", v |-> x, w |-> w, c |-> c]   \* c = field name, w = 1: one byte, 2: multi-byte LE
H(x) == [t |-> "h", v |-> x, w |-> 2, c |-> "cksum"]  \* checksum cell: an uninterpreted injective function of the items
Zero == L("pad", 0, 1)
Magic == 77

\* numeric reading of a cell (a checksum cell read as a number is just some invalid number)
Num(c) == IF c.t = "n" THEN c.v ELSE 99

KeyByte(k) == 10 + k
ValByte(v) == 20 + v
Compressed(v) == 40 + v            \* one data cell holding the compressed form of value byte v

ItemCells(it) ==
    IF it.op = "clear" THEN <<L("ctag", 4, 1), L("cksid", it.ks, 2)>>
    ELSE LET vt == IF it.op = "put" THEN 0 ELSE 1
             hasv == it.op = "put" /\ it.v # 0
             data == IF ~hasv THEN <<>> ELSE IF it.z THEN <<L("zdata", Compressed(it.v), 1)>> ELSE <<L("data", ValByte(it.v), 1)>>
         IN <<L("itag", 2, 1), L("vtype", vt, 1), L("comp", IF hasv /\ it.z THEN 1 ELSE 0, 1), L("ksid", it.ks, 2),
              L("klen", 1, 2), L("vlen", IF hasv THEN 1 ELSE 0, 2), L("dlen", Len(data), 2), L("key", KeyByte(it.k), 1)>> \o data

\* what the checksum covers: the decoded items (re-encoded by the reader), not the Start cells
ItemSig(it) == IF it.op = "clear" THEN <<"clear", it.ks>>
               ELSE <<it.op, it.ks, it.k, IF it.op = "put" THEN it.v ELSE 0, it.op = "put" /\ it.v # 0 /\ it.z>>
RECURSIVE Sigs(_)
Sigs(items) == IF items = <<>> THEN <<>> ELSE <<ItemSig(Head(items))>> \o Sigs(Tail(items))
RECURSIVE AllCells(_)
AllCells(items) == IF items = <<>> THEN <<>> ELSE ItemCells(Head(items)) \o AllCells(Tail(items))

BatchCells(items, s) ==
    <<L("stag", 1, 1), L("count", Len(items), 2), L("seqno", s, 2)>> \o AllCells(items)
        \o <<L("etag", 3, 1), H(Sigs(items)), L("magic", Magic, 2)>>

-----------------------------------------------------------------------------
(* Reader                                                                    *)

\* cell at position p of file f (positions beyond the file: EOF)
At(f, p) == f[p]
Avail(f, p, n) == p + n - 1 <= Len(f)

\* decode one marker at position p: [k |-> "eof" | "bad" | "start" | "item" | "clear" | "end", next, ...]
Decode(f, p) ==
    IF ~Avail(f, p, 1) THEN [k |-> "eof"]
    ELSE LET tag == Num(At(f, p)) IN
      IF tag = 1 THEN
          IF ~Avail(f, p, 3) THEN [k |-> "eof"]
          ELSE [k |-> "start", next |-> p + 3, count |-> Num(At(f, p + 1)), s |-> Num(At(f, p + 2))]
      ELSE IF tag = 2 THEN
          IF ~Avail(f, p, 7) THEN [k |-> "eof"]
          ELSE LET vt == Num(At(f, p + 1))  comp == Num(At(f, p + 2))  ks == Num(At(f, p + 3))
                   klen == Num(At(f, p + 4))  vlen == Num(At(f, p + 5))  dlen == Num(At(f, p + 6))
               IN IF vt \notin {0, 1, 2} \/ comp \notin {0, 1} THEN [k |-> "bad"]
                  ELSE IF klen > 3 \/ dlen > 3 THEN [k |-> "eof"]   \* absurd lengths run off the file
                  ELSE IF ~Avail(f, p + 7, klen + dlen) THEN [k |-> "eof"]
                  ELSE LET key  == [i \in 1..klen |-> Num(At(f, p + 6 + i))]
                           data == [i \in 1..dlen |-> Num(At(f, p + 6 + klen + i))]
                           \* lz4: the decompressed size must equal the stored value length
                           okz  == comp = 0 \/ (dlen = 1 /\ data[1] \in 41..49 /\ vlen = 1)
                       IN IF ~okz THEN [k |-> "bad"]
                          ELSE [k |-> "item", next |-> p + 7 + klen + dlen, vt |-> vt, ks |-> ks,
                                key |-> key,
                                val |-> IF comp = 1 THEN <<data[1] - 20>> ELSE data,   \* decompressed bytes
                                z |-> comp = 1]
      ELSE IF tag = 4 THEN
          IF ~Avail(f, p, 2) THEN [k |-> "eof"] ELSE [k |-> "clear", next |-> p + 2, ks |-> Num(At(f, p + 1))]
      ELSE IF tag = 3 THEN
          IF ~Avail(f, p, 3) THEN [k |-> "eof"]
          ELSE IF Num(At(f, p + 2)) # Magic THEN [k |-> "bad"]
          ELSE [k |-> "end", next |-> p + 3, ck |-> At(f, p + 1)]
      ELSE [k |-> "bad"]

\* signature the batch reader computes for a decoded item (what it re-encodes and hashes)
DecSig(d) ==
    IF d.k = "clear" THEN <<"clear", d.ks>>
    ELSE <<IF d.vt = 0 THEN "put" ELSE "del", d.ks,
           IF Len(d.key) = 1 THEN d.key[1] - 10 ELSE 90 + Len(d.key),
           IF d.vt = 0 /\ Len(d.val) = 1 THEN d.val[1] - 20 ELSE IF Len(d.val) = 0 THEN 0 ELSE 95,
           d.z>>

\* the batch reader: returns [batches, valid (cells kept), err]
RECURSIVE Read(_, _, _)
Read(f, p, st) ==
    \* st = [inb, cnt, s, sigs, items, lastValid, out]
    LET d == Decode(f, p) IN
    IF d.k \in {"eof", "bad"} THEN
        \* JournalReader stops (truncating to its last valid position); on_close discards an
        \* unterminated batch by truncating to the end of the last complete batch
        [batches |-> st.out, valid |-> IF st.inb THEN st.lastValid ELSE (p - 1), err |-> "none"]
    ELSE IF d.k = "start" THEN
        IF st.inb THEN [batches |-> st.out, valid |-> st.lastValid, err |-> "none"]
        ELSE Read(f, d.next, [st EXCEPT !.inb = TRUE, !.cnt = d.count, !.s = d.s, !.sigs = <<>>, !.items = <<>>])
    ELSE IF d.k = "end" THEN
        IF st.cnt > 0 THEN [batches |-> st.out, valid |-> st.lastValid, err |-> "hard"]        \* InsufficientLength
        ELSE IF ~st.inb THEN [batches |-> st.out, valid |-> st.lastValid, err |-> "none"]
        ELSE IF (d.ck.t # "h" \/ d.ck.v # st.sigs) THEN [batches |-> st.out, valid |-> st.lastValid, err |-> "hard"]  \* ChecksumMismatch
        ELSE Read(f, d.next, [st EXCEPT !.inb = FALSE, !.cnt = 0, !.lastValid = d.next - 1,
                                        !.out = Append(@, [s |-> st.s, items |-> st.items])])
    ELSE \* item or clear
        IF ~st.inb THEN [batches |-> st.out, valid |-> st.lastValid, err |-> "none"]
        ELSE IF st.cnt = 0 THEN [batches |-> st.out, valid |-> st.lastValid, err |-> "hard"]   \* TooManyItems
        ELSE Read(f, d.next, [st EXCEPT !.cnt = @ - 1, !.sigs = Append(@, DecSig(d)),
                                        !.items = Append(@, DecSig(d))])

ReadFile(f) == Read(f, 1, [inb |-> FALSE, cnt |-> 0, s |-> 0, sigs |-> <<>>, items |-> <<>>,
                           lastValid |-> 0, out |-> <<>>])

-----------------------------------------------------------------------------
(* What a user observes after recovery: per keyspace and key the item with   *)
(* the highest seqno wins (ties: later in the file), clear is positional      *)

Keyspaces == {1, 2}
KeyIds == {1, 2}
RECURSIVE ApplyItems(_, _, _)
ApplyItems(S, items, s) ==
    IF items = <<>> THEN S
    ELSE LET it == Head(items) IN
         IF it[1] = "clear" THEN
            ApplyItems([S EXCEPT ![it[2]] = [k \in KeyIds |-> [s |-> 0, v |-> 0]]], Tail(items), s)
         ELSE IF it[2] \notin Keyspaces \/ it[3] \notin KeyIds THEN ApplyItems([S EXCEPT ![1][1] = [s |-> 999, v |-> 999]], Tail(items), s) \* a key nobody wrote
         ELSE IF s >= S[it[2]][it[3]].s
              THEN ApplyItems([S EXCEPT ![it[2]][it[3]] = [s |-> s, v |-> IF it[1] = "put" THEN (IF it[4] = 0 THEN 100 ELSE it[4]) ELSE 0]], Tail(items), s)
              ELSE ApplyItems(S, Tail(items), s)
RECURSIVE ApplyBatches(_, _)
ApplyBatches(S, bs) == IF bs = <<>> THEN S ELSE ApplyBatches(ApplyItems(S, Head(bs).items, Head(bs).s), Tail(bs))
EmptyState == [ks \in Keyspaces |-> [k \in KeyIds |-> [s |-> 0, v |-> 0]]]
Observable(bs) == LET S == ApplyBatches(EmptyState, bs) IN [ks \in Keyspaces |-> [k \in KeyIds |-> S[ks][k].v]]

-----------------------------------------------------------------------------
VARIABLES
    written,   \* Seq of [s, items]: the batches committed
    file,      \* the cells on disk
    phase,     \* "write" | "damaged" | "recovered" | "appended"
    damage,    \* what was done: <<"cut", pos, padded>> or <<"alter", pos, value>> or <<"none">>
    result     \* ReadFile(file) after the damage

vars == <<written, file, phase, damage, result>>

RECURSIVE Concat(_)
Concat(ss) == IF ss = <<>> THEN <<>> ELSE Head(ss) \o Concat(Tail(ss))
FileOf(bs) == Concat([i \in 1..Len(bs) |-> BatchCells(bs[i].items, bs[i].s)])
SigBatches(bs) == [i \in 1..Len(bs) |-> [s |-> bs[i].s, items |-> Sigs(bs[i].items)]]
Prefixes(bs) == {SubSeq(bs, 1, n) : n \in 0..Len(bs)}
BatchEnd(bs, n) == Len(FileOf(SubSeq(bs, 1, n)))

Init == written = <<>> /\ file = <<>> /\ phase = "write" /\ damage = <<"none">> /\ result = ReadFile(<<>>)

WriteBatch(sh) ==
    /\ phase = "write" /\ Len(written) < MaxBatches
    /\ written' = Append(written, [s |-> Len(written) + 1, items |-> sh])
    /\ file' = FileOf(written')
    /\ UNCHANGED <<phase, damage, result>>

\* the file ends inside the last batch at cell pos (pos-1 cells survive); padded: zero cells follow
\* (preallocated file) - a cut cell of a multi-byte field may then read as a smaller number
Cut(pos, padded, g) ==
    /\ phase = "write" /\ written # <<>>
    /\ pos \in (BatchEnd(written, Len(written) - 1) + 1)..Len(file)
    \* a cut inside a multi-byte little-endian field followed by zero padding reads as a smaller
    \* number (or, for the checksum, as some other value); a one-byte field is there or it is not
    /\ (g # 0 => (padded /\ file[pos].w = 2 /\ (IF file[pos].t = "h" THEN TRUE ELSE g < file[pos].v)))
    /\ LET kept == SubSeq(file, 1, pos - 1)
           tail == IF padded THEN <<IF g = 0 THEN Zero ELSE L("pad", g, 1)>> \o [i \in 1..6 |-> Zero] ELSE <<>>
       IN file' = kept \o tail
    /\ damage' = <<"cut", pos, padded>>
    /\ phase' = "damaged"
    /\ UNCHANGED <<written, result>>

\* one cell of a completed file is altered
Alter(pos, g) ==
    /\ phase = "write" /\ written # <<>>
    /\ pos \in 1..Len(file)
    /\ ~(file[pos].t = "n" /\ file[pos].v = g)
    /\ file' = [file EXCEPT ![pos] = [t |-> "n", v |-> g, w |-> file[pos].w, c |-> file[pos].c]]
    /\ damage' = <<"alter", pos, g, file[pos].c, (\E n \in 1..Len(written) : pos > BatchEnd(written, n - 1) /\ pos <= BatchEnd(written, n) /\ n = Len(written))>>
    /\ phase' = "damaged"
    /\ UNCHANGED <<written, result>>

Recover ==
    /\ phase = "damaged"
    /\ result' = ReadFile(file)
    /\ file' = SubSeq(file, 1, result'.valid)      \* the reader truncates the file
    /\ phase' = "recovered"
    /\ UNCHANGED <<written, damage>>

\* a further batch is appended to the repaired journal and the file is read again
AppendAfter(sh) ==
    /\ phase = "recovered" /\ result.err = "none" /\ damage[1] = "cut"
    /\ file' = file \o BatchCells(sh, 9)
    /\ result' = ReadFile(file')
    /\ phase' = "appended"
    /\ UNCHANGED <<written, damage>>

Next ==
    \/ \E sh \in Shapes : WriteBatch(sh)
    \/ \E pos \in 1..40, padded \in BOOLEAN, g \in {0} \cup Garbage : Cut(pos, padded, g)
    \/ \E pos \in 1..40, g \in {0} \cup Garbage : Alter(pos, g)
    \/ Recover
    \/ \E sh \in Shapes : AppendAfter(sh)

Spec == Init /\ [][Next]_vars

-----------------------------------------------------------------------------
\* C03: a torn last record is discarded as a whole, every complete earlier batch is recovered,
\* the file is truncated to the end of the last complete batch, and a later append is recoverable
TornTailAtomic ==
    (phase = "recovered" /\ damage[1] = "cut") =>
        /\ result.err = "none"
        /\ LET n == Len(written) - 1 IN
           \/ /\ result.batches = SigBatches(SubSeq(written, 1, n))
              /\ result.valid = BatchEnd(written, n)
           \* the cut removed nothing (only the last cell boundary) is not possible: pos <= Len(file)
AppendRecoverable ==
    phase = "appended" =>
        /\ result.err = "none"
        /\ Len(result.batches) = Len(written)      \* the complete earlier ones plus the new one
        /\ result.batches[Len(result.batches)].s = 9

\* C15: altered bytes of a completed record: opening fails, or yields the observable state of
\* some prefix of the commit history - never altered keys or values.
\* Known finding D10: the Start cells (count, seqno) are not covered by the checksum; an altered
\* seqno replays a complete batch at another seqno.
IsStartSeqnoCell(pos) ==
    \E n \in 1..Len(written) : pos = BatchEnd(written, n - 1) + 3
DamageNeverReadAsData ==
    (phase = "recovered" /\ damage[1] = "alter" /\ ~IsStartSeqnoCell(damage[2])) =>
        \/ result.err = "hard"
        \/ \E p \in Prefixes(written) : Observable(result.batches) = Observable(SigBatches(p))
NoFinding_D10 ==
    (phase = "recovered" /\ damage[1] = "alter" /\ IsStartSeqnoCell(damage[2])) =>
        \/ result.err = "hard"
        \/ \E p \in Prefixes(written) : Observable(result.batches) = Observable(SigBatches(p))

\* outcome classes per altered field, printed for the conformance comparison with the
\* byte-level campaign on real journal files: <<field, in last batch?, outcome>>
OutcomeClass ==
    IF result.err = "hard" THEN "error"
    ELSE IF Observable(result.batches) = Observable(SigBatches(written)) THEN "all"
    ELSE IF \E p \in Prefixes(written) : Observable(result.batches) = Observable(SigBatches(p)) THEN "prefix"
    ELSE "other"
ExportOutcome ==
    (phase = "recovered" /\ damage[1] = "alter") => PrintT(<<"OUTCOME", damage[4], damage[5], OutcomeClass>>)
=============================================================================
