\* C09: manual_journal_persist on the database only (batches stay buffered, single writes flush)
SPECIFICATION Spec
CONSTANTS
  Threads = {1, 2}
  MaxOps = 3
  Kinds = {"w", "c", "b"}
  ManualKs = FALSE
  ManualDb = TRUE
  PersistShortcut = FALSE
  SyncBatchSyncs = TRUE
  MaxFaults = 0
  EnPersistCall = TRUE
  FixPoisonAppend = TRUE
  ClearFlushes = TRUE
INVARIANTS CrashRecoversAcked PowerLossKeepsDurable CrashKeepsBuffered SyncOrder MutualExclusion FailStop ClearDropsTablesOnlyWithRecord
CHECK_DEADLOCK FALSE
