SPECIFICATION TraceSpec
CONSTANTS
  Threads = {1, 2, 3, 4, 5, 6, 7, 8}
  Cells = {}
  Programs = {}
  MaxUpgrades = 100000
  MaxViews = 100000
INVARIANTS MutualExclusion TraceNoTornBatch
CONSTRAINT TrackL
POSTCONDITION TraceAccepted
CHECK_DEADLOCK FALSE
