\* C17: the lifecycle as the code performs it (after the fix: commits): 2 open attempts
\* interleaved, 1-2 workers, worker failure, handles of both kinds, messages sent through keyspace handles
SPECIFICATION Spec
CONSTANTS
  NWorkers = 2
  MaxAttempts = 2
  MaxDb = 2
  MaxKs = 2
  MaxSends = 1
  QCap = 3
  Markers = {"none", "v2", "v3x"}
  ExitOrder = "rel_first"
  FailCounts = TRUE
  WorkerMayFail = TRUE
  AdoptGuard = TRUE
  WeakMessager = TRUE
  CloseSend = "try"
  DrainInLoop = TRUE
INVARIANTS HandleImpliesLock AtMostOneInstance RefusedChangesNothing IncompatibleRefused AbsentMarkerRefused UnlockAfterSync NoUnsyncedOpen DropReturnedWorkersGone SettledUnlocked NoFinding_Stranded
CHECK_DEADLOCK FALSE
