---------------------------- MODULE FjallJournal ----------------------------
(***************************************************************************)
(* The writers' critical section (journal mutex), the journal file as a     *)
(* sequence of frames moving through  user-space buffer -> OS -> device,    *)
(* Database::persist, the fail-stop (poison) flag, and what recovery finds  *)
(* after a process crash or a power loss.  One action per statement group   *)
(* of Keyspace::insert/remove/clear, WriteBatch::commit, Database::persist  *)
(* and Journal/Writer::persist, so that crashes, power losses and injected  *)
(* I/O errors can strike between any two of them, with several writer       *)
(* (manual journal persist exists twice: per keyspace and per database)     *)
(* threads.  Serves C02/C03 (frame granularity), C09, C13.                   *)
(*                                                                           *)
(* Frames are identified by the operation that wrote them (frame i = op i).  *)
(* BufWriter is abstracted: at any time any prefix of the appended bytes may *)
(* already be in the OS (AdvanceOs), a flush puts everything there.          *)
(***************************************************************************)
EXTENDS Naturals, Sequences, FiniteSets, TLC

CONSTANTS
    Threads,         \* writer threads
    MaxOps,          \* operations issued in total
    Kinds,           \* subset of {"w", "c", "b", "bs"}: single write, clear, batch (default durability),
                     \* batch / transaction committed with durability SyncData | SyncAll
    ManualKs,        \* manual_journal_persist of the KEYSPACE (insert / remove / clear do not flush the buffer)
    ManualDb,        \* manual_journal_persist of the DATABASE (batches / transactions do not flush it)
    MaxFaults,       \* injected I/O errors
    EnPersistCall,   \* Database::persist calls by a client
    FixPoisonAppend, \* model of repair: batch / clear poison on a failed journal append as well
    SyncBatchSyncs,  \* FALSE (not the code): the durability level of a batch / transaction is dropped on the
                     \* way to the journal writer (the commit returns without the sync it was asked for)
    PersistShortcut, \* TRUE (not the code): persist(Buffer) returns at once when the database is not in
                     \* manual mode ("every write flushed already") - wrong with a manual keyspace
    ClearFlushes     \* model of repair D27: clear flushes the buffer before it drops the tables, also
                     \* with manual persist (FALSE = the code as found)

VARIABLES
    lock,        \* holder of the journal mutex (0 = free)
    pc,          \* [Threads -> program counter]
    cur,         \* [Threads -> op index in flight]
    nops,        \* ops started so far (op indices are 1..nops, in journal order)
    kind,        \* [op -> kind]
    frame,       \* [op -> "none" | "whole" | "torn"]   what the writer appended for the op
    nOs,         \* number of frames (in op order, among those appended) completely handed to the OS
    osPart,      \* TRUE: the next frame is partially in the OS
    nSync,       \* number of frames covered by the last successful fsync/fdatasync
    syncPart,    \* TRUE: the synced image ends inside the next frame
    ack,         \* [op -> "none" | "ok" | "err"]
    applied,     \* ops applied to the memtable (visible in the process)
    poisoned,
    ioFailed,    \* history: some journal I/O has failed
    ackedAtFail, \* history: ops acknowledged when the first failure happened
    badAck,      \* history: an op was acknowledged although it started after a journal I/O failure
    faults,      \* injected so far
    pmode,       \* mode of the Database::persist call in flight ("" = none)
    pSnap,       \* ops acknowledged when the persist call started
    durable,     \* history: ops that a returned persist(Sync*) promised to be power-loss durable
    bufdurable,  \* history: ops that a returned persist(any mode) promised to survive a process crash
    phase,       \* "run" | "crashed" | "powerlost"
    rec          \* recovered ops after a crash

vars == <<lock, pc, cur, nops, kind, frame, nOs, osPart, nSync, syncPart, ack, applied, poisoned,
          ioFailed, ackedAtFail, badAck, faults, pmode, pSnap, durable, bufdurable, phase, rec>>

Ops == 1..MaxOps
Client == 0   \* pseudo thread id of the persist caller

\* frames in file order: ops with a frame, ascending
Appended == {i \in Ops : frame[i] # "none"}
AppSeq == LET RECURSIVE S(_) S(n) == IF n = 0 THEN <<>> ELSE
                  IF frame[n] # "none" THEN Append(S(n - 1), n) ELSE S(n - 1)
          IN S(MaxOps)
NApp == Len(AppSeq)

Init ==
    /\ lock = 99 /\ pc = [t \in Threads |-> "idle"] /\ cur = [t \in Threads |-> 0]
    /\ nops = 0 /\ kind = [i \in Ops |-> "w"] /\ frame = [i \in Ops |-> "none"]
    /\ nOs = 0 /\ osPart = FALSE /\ nSync = 0 /\ syncPart = FALSE
    /\ ack = [i \in Ops |-> "none"] /\ applied = {} /\ poisoned = FALSE
    /\ ioFailed = FALSE /\ ackedAtFail = {} /\ badAck = FALSE /\ faults = 0
    /\ pmode = "" /\ pSnap = {} /\ durable = {} /\ bufdurable = {}
    /\ phase = "run" /\ rec = {}

Free == 99
Running == phase = "run"

Fail(i) == /\ ioFailed' = TRUE
           /\ ackedAtFail' = IF ioFailed THEN ackedAtFail ELSE {j \in Ops : ack[j] = "ok"}

\* ---------------------------------------------------------------------------
\* writer thread t: get_writer() -> poison check -> seqno draw -> journal append ->
\* persist(Buffer) unless manual -> memtable apply -> publish -> unlock
Lock(t) ==
    /\ Running /\ pc[t] = "idle" /\ lock = Free /\ nops < MaxOps
    /\ lock' = t /\ pc' = [pc EXCEPT ![t] = "locked"]
    /\ UNCHANGED <<cur, nops, kind, frame, nOs, osPart, nSync, syncPart, ack, applied, poisoned,
                   ioFailed, ackedAtFail, badAck, faults, pmode, pSnap, durable, bufdurable, phase, rec>>

\* poisoned: refused, nothing drawn
Refused(t) ==
    /\ Running /\ pc[t] = "locked" /\ poisoned
    /\ lock' = Free /\ pc' = [pc EXCEPT ![t] = "idle"]
    /\ UNCHANGED <<cur, nops, kind, frame, nOs, osPart, nSync, syncPart, ack, applied, poisoned,
                   ioFailed, ackedAtFail, badAck, faults, pmode, pSnap, durable, bufdurable, phase, rec>>

Draw(t, k) ==
    /\ Running /\ pc[t] = "locked" /\ ~poisoned /\ k \in Kinds
    /\ nops' = nops + 1
    /\ cur' = [cur EXCEPT ![t] = nops + 1]
    /\ kind' = [kind EXCEPT ![nops + 1] = k]
    /\ pc' = [pc EXCEPT ![t] = "drawn"]
    /\ UNCHANGED <<lock, frame, nOs, osPart, nSync, syncPart, ack, applied, poisoned,
                   ioFailed, ackedAtFail, badAck, faults, pmode, pSnap, durable, bufdurable, phase, rec>>

\* write_raw / write_clear / write_batch succeed: the frame is in the writer (buffer and/or OS)
AppendOk(t) ==
    /\ Running /\ pc[t] = "drawn"
    /\ frame' = [frame EXCEPT ![cur[t]] = "whole"]
    /\ pc' = [pc EXCEPT ![t] = "appended"]
    /\ UNCHANGED <<lock, cur, nops, kind, nOs, osPart, nSync, syncPart, ack, applied, poisoned,
                   ioFailed, ackedAtFail, badAck, faults, pmode, pSnap, durable, bufdurable, phase, rec>>

\* the append fails half way (write_all error while the buffer spills): part of the frame stays
\* in the writer.  insert/remove poison; batch commit and clear return the error without
\* poisoning (unless the repair is modelled).
AppendFail(t) ==
    /\ Running /\ pc[t] = "drawn" /\ faults < MaxFaults
    /\ faults' = faults + 1
    /\ frame' = [frame EXCEPT ![cur[t]] = "torn"]
    /\ osPart' = (IF nOs = NApp THEN TRUE ELSE osPart)   \* the torn bytes reached the OS if nothing was buffered before
    /\ poisoned' = (poisoned \/ kind[cur[t]] = "w" \/ FixPoisonAppend)
    /\ ack' = [ack EXCEPT ![cur[t]] = "err"]
    /\ Fail(cur[t])
    /\ lock' = Free /\ pc' = [pc EXCEPT ![t] = "idle"]
    /\ UNCHANGED <<cur, nops, kind, nOs, nSync, syncPart, applied, badAck, pmode, pSnap, durable, bufdurable,
                   phase, rec>>

\* persist(Buffer) inside the write (skipped with manual persist; batches persist with their
\* durability, here Buffer; clear always persists, because its Apply drops tables on disk)
Manual == ManualKs \/ ManualDb
SkipsFlush(i) == IF kind[i] = "bs" THEN FALSE      \* an explicit durability level always persists
                 ELSE IF kind[i] = "b" THEN ManualDb
                 ELSE ManualKs /\ ~(ClearFlushes /\ kind[i] = "c")

\* (a batch / transaction with a Sync durability level also syncs: everything acknowledged before
\* it - and the batch itself once it is acknowledged, see Ack - is power-loss durable from here on)
FlushOk(t) ==
    /\ Running /\ pc[t] = "appended"
    /\ IF SkipsFlush(cur[t])
       THEN UNCHANGED <<nOs, osPart>>
       ELSE nOs' = NApp /\ osPart' = FALSE
    /\ IF kind[cur[t]] = "bs" /\ SyncBatchSyncs
       THEN /\ nSync' = NApp /\ syncPart' = FALSE
       ELSE UNCHANGED <<nSync, syncPart>>
    /\ durable' = IF kind[cur[t]] = "bs" THEN durable \cup {i \in Ops : ack[i] = "ok"} ELSE durable
    /\ pc' = [pc EXCEPT ![t] = "flushed"]
    /\ UNCHANGED <<lock, cur, nops, kind, frame, ack, applied, poisoned,
                   ioFailed, ackedAtFail, badAck, faults, pmode, pSnap, bufdurable, phase, rec>>

FlushFail(t) ==
    /\ Running /\ pc[t] = "appended" /\ faults < MaxFaults
    /\ ~SkipsFlush(cur[t])
    /\ faults' = faults + 1
    /\ \E n \in nOs..NApp : nOs' = n /\ osPart' = (n < NApp)    \* some prefix reached the OS
    /\ poisoned' = TRUE
    /\ ack' = [ack EXCEPT ![cur[t]] = "err"]
    /\ Fail(cur[t])
    /\ lock' = Free /\ pc' = [pc EXCEPT ![t] = "idle"]
    /\ UNCHANGED <<cur, nops, kind, frame, nSync, syncPart, applied, badAck, pmode, pSnap, durable, bufdurable,
                   phase, rec>>

Apply(t) ==
    /\ Running /\ pc[t] = "flushed"
    /\ applied' = applied \cup {cur[t]}
    /\ pc' = [pc EXCEPT ![t] = "applied"]
    /\ UNCHANGED <<lock, cur, nops, kind, frame, nOs, osPart, nSync, syncPart, ack, poisoned,
                   ioFailed, ackedAtFail, badAck, faults, pmode, pSnap, durable, bufdurable, phase, rec>>

\* publish + unlock + return Ok
Ack(t) ==
    /\ Running /\ pc[t] = "applied"
    /\ ack' = [ack EXCEPT ![cur[t]] = "ok"]
    /\ badAck' = (badAck \/ ioFailed)
    /\ durable' = IF kind[cur[t]] = "bs" THEN durable \cup {cur[t]} ELSE durable
    /\ lock' = Free /\ pc' = [pc EXCEPT ![t] = "idle"]
    /\ UNCHANGED <<cur, nops, kind, frame, nOs, osPart, nSync, syncPart, applied, poisoned,
                   ioFailed, ackedAtFail, faults, pmode, pSnap, bufdurable, phase, rec>>

\* ---------------------------------------------------------------------------
\* Database::persist(mode): poison check WITHOUT the mutex, then Journal::persist takes the
\* mutex: flush the buffer, then sync
PersistBegin(m) ==
    /\ Running /\ EnPersistCall /\ pmode = "" /\ ~poisoned
    /\ m \in {"Buffer", "SyncData", "SyncAll"}
    /\ pmode' = m
    /\ pSnap' = {i \in Ops : ack[i] = "ok"}
    /\ UNCHANGED <<lock, pc, cur, nops, kind, frame, nOs, osPart, nSync, syncPart, ack, applied,
                   poisoned, ioFailed, ackedAtFail, badAck, faults, durable, bufdurable, phase, rec>>

\* the variant's early return: nothing flushed, the call reports success
PersistSkip ==
    /\ Running /\ PersistShortcut /\ pmode = "Buffer" /\ ~ManualDb /\ lock # Client
    /\ bufdurable' = bufdurable \cup pSnap
    /\ pmode' = ""
    /\ UNCHANGED <<lock, pc, cur, nops, kind, frame, nOs, osPart, nSync, syncPart, ack, applied,
                   poisoned, ioFailed, ackedAtFail, badAck, faults, pSnap, durable, phase, rec>>

PersistLock ==
    /\ Running /\ pmode # "" /\ lock = Free
    /\ ~(PersistShortcut /\ pmode = "Buffer" /\ ~ManualDb)
    /\ lock' = Client
    /\ UNCHANGED <<pc, cur, nops, kind, frame, nOs, osPart, nSync, syncPart, ack, applied,
                   poisoned, ioFailed, ackedAtFail, badAck, faults, pmode, pSnap, durable, bufdurable, phase, rec>>

PersistDoOk ==
    /\ Running /\ lock = Client
    /\ nOs' = NApp /\ osPart' = FALSE
    /\ bufdurable' = bufdurable \cup pSnap
    /\ IF pmode = "Buffer" THEN UNCHANGED <<nSync, syncPart, durable>>
       ELSE /\ nSync' = NApp /\ syncPart' = FALSE
            /\ durable' = durable \cup pSnap
    /\ pmode' = "" /\ lock' = Free
    /\ UNCHANGED <<pc, cur, nops, kind, frame, ack, applied, poisoned, ioFailed, ackedAtFail,
                   badAck, faults, pSnap, phase, rec>>

PersistDoFail ==
    /\ Running /\ lock = Client /\ faults < MaxFaults
    /\ faults' = faults + 1
    /\ \E n \in nOs..NApp : nOs' = n /\ osPart' = (n < NApp)
    /\ poisoned' = TRUE
    /\ ioFailed' = TRUE
    /\ ackedAtFail' = IF ioFailed THEN ackedAtFail ELSE {j \in Ops : ack[j] = "ok"}
    /\ pmode' = "" /\ lock' = Free
    /\ UNCHANGED <<pc, cur, nops, kind, frame, nSync, syncPart, ack, applied, badAck, pSnap,
                   durable, bufdurable, phase, rec>>

\* ---------------------------------------------------------------------------
\* BufWriter spills: one more frame (or part of it) reaches the OS at any time
AdvanceOs ==
    /\ Running /\ nOs < NApp
    /\ \/ nOs' = nOs + 1 /\ osPart' = FALSE
       \/ osPart' = TRUE /\ nOs' = nOs
    /\ osPart' # osPart \/ nOs' # nOs
    /\ UNCHANGED <<lock, pc, cur, nops, kind, frame, nSync, syncPart, ack, applied, poisoned,
                   ioFailed, ackedAtFail, badAck, faults, pmode, pSnap, durable, bufdurable, phase, rec>>

\* ---------------------------------------------------------------------------
\* recovery reads frames in file order and stops at the first frame that is not complete
\* (torn by a failed append, or cut by the crash); everything behind it is discarded
RECURSIVE GoodPrefix(_, _)
GoodPrefix(s, n) ==     \* ops of the first n frames of s, up to the first torn one
    IF n = 0 \/ s = <<>> THEN {}
    ELSE IF frame[Head(s)] = "torn" THEN {}
    ELSE {Head(s)} \cup GoodPrefix(Tail(s), n - 1)

Crash ==
    /\ Running
    /\ phase' = "crashed"
    /\ rec' = GoodPrefix(AppSeq, nOs)
    /\ UNCHANGED <<lock, pc, cur, nops, kind, frame, nOs, osPart, nSync, syncPart, ack, applied,
                   poisoned, ioFailed, ackedAtFail, badAck, faults, pmode, pSnap, durable, bufdurable>>

PowerLoss ==
    /\ Running
    /\ phase' = "powerlost"
    /\ rec' = GoodPrefix(AppSeq, nSync)
    /\ UNCHANGED <<lock, pc, cur, nops, kind, frame, nOs, osPart, nSync, syncPart, ack, applied,
                   poisoned, ioFailed, ackedAtFail, badAck, faults, pmode, pSnap, durable, bufdurable>>

Next ==
    \/ \E t \in Threads : Lock(t) \/ Refused(t) \/ AppendOk(t) \/ AppendFail(t) \/ FlushOk(t)
                          \/ FlushFail(t) \/ Apply(t) \/ Ack(t)
    \/ \E t \in Threads, k \in Kinds : Draw(t, k)
    \/ \E m \in {"Buffer", "SyncData", "SyncAll"} : PersistBegin(m)
    \/ PersistLock \/ PersistSkip \/ PersistDoOk \/ PersistDoFail
    \/ AdvanceOs \/ Crash \/ PowerLoss

Spec == Init /\ [][Next]_vars

\* ---------------------------------------------------------------------------
Acked == {i \in Ops : ack[i] = "ok"}

\* C13: once any journal I/O failed, no write is acknowledged any more
FailStop == ~badAck

\* C02 (+C13 third sentence): a process crash recovers a prefix of the journal order that
\* contains every acknowledged op (default persist mode), never a torn frame
CrashRecoversAcked ==
    phase = "crashed" =>
        /\ (~Manual => Acked \subseteq rec)
        /\ \A i \in rec : frame[i] = "whole"
        /\ \A i \in rec : \A j \in Appended : j < i => j \in rec     \* prefix
\* C13: what was acknowledged before the failure is recovered, the failed op is not
AckedBeforeFaultRecovered ==
    (phase = "crashed" /\ ioFailed /\ ~Manual) => ackedAtFail \subseteq rec
\* C09: what persist(SyncData|SyncAll) promised survives a power loss
PowerLossKeepsDurable == phase = "powerlost" => durable \subseteq rec
\* with manual persist, persist(Buffer) makes earlier writes survive a process crash
\* C09 last sentence
CrashKeepsBuffered == phase = "crashed" => bufdurable \subseteq rec
\* Apply of a clear drops the keyspace's tables on disk at once (lsm-tree's clear is a version
\* change, durable by itself).  After a process crash the clear must therefore be among the
\* recovered records: otherwise flushed data is gone although the journal replays older writes
\* as if the clear had never happened (D27: neither the state before nor after the clear).
ClearDropsTablesOnlyWithRecord ==
    phase = "crashed" => \A c \in applied : kind[c] = "c" => c \in rec
SyncOrder == nSync <= nOs /\ nOs <= NApp
MutualExclusion == \A t1, t2 \in Threads : (t1 # t2 /\ pc[t1] # "idle") => pc[t2] = "idle"
=============================================================================
