------------------------------- MODULE FjallTx -------------------------------
(***************************************************************************)
(* Transactions of OptimisticTxDatabase (SSI by backward validation under   *)
(* the oracle mutex) and SingleWriterTxDatabase (one writer at a time).     *)
(* A transaction is: a snapshot instant, an ephemeral write set, the read   *)
(* footprints the code records per read method, the conflict keys, and (as  *)
(* history) what it observed.  Commit = validate read footprints against    *)
(* the conflict keys of transactions committed after the snapshot, prune    *)
(* the table by the GC watermark, apply the write set as one batch, and     *)
(* register at commit timestamp = visible seqno.  The snapshot tracker is   *)
(* modelled with its counts because the commit path touches it.             *)
(***************************************************************************)
EXTENDS Naturals, Sequences, FiniteSets, TLC

CONSTANTS
    Txs,            \* transaction ids
    Keys,           \* naturals
    KsSplit,        \* keys 1..KsSplit live in one keyspace, the larger ones in a second keyspace
                    \* (under the same user keys); KsSplit >= every key: a single keyspace
    MaxOpsPerTx,
    Methods,        \* subset of ReadMethods \cup {"insert", "remove", "rmw", "helper"}
    SingleWriter,   \* TRUE: SingleWriterTxDatabase (write_tx holds a process-wide mutex)
    EnGC,           \* tracker gc + pruning of the committed table
    FixSizeOf,      \* model of repair: size_of records its read
    FixDoubleClose  \* model of repair: with_commit no longer closes the snapshot a second time

VARIABLES
    seqno, visible,
    ents,       \* committed entries: set of [k, s, v, h]  (v = 0: tombstone; h: written by a single-operation helper)
    tx,         \* [Txs -> transaction record]
    table,      \* oracle table of committed transactions: set of [ts, cks]
    trk,        \* snapshot tracker: [cnt : instant -> count (as set of pairs), wm]
    writer,     \* holder of the single-writer mutex (0 = free)
    nval,       \* counter for distinguishable values
    commits,    \* history: sequence of committed tx ids in commit order
    allc,       \* history: every [ts, cks] ever registered in the oracle table
    bad,        \* history: set of tx ids whose commit was accepted although not serializable
    last        \* label of the last action with the results the implementation must show

vars == <<seqno, visible, ents, tx, table, trk, writer, nval, commits, allc, bad, last>>

NoTx == [st |-> "idle", inst |-> 0, w |-> [k \in Keys |-> [set |-> FALSE, v |-> 0]], nw |-> 0,
         reads |-> {}, cks |-> {}, obs |-> <<>>, nops |-> 0]

MaxOf(S) == IF S = {} THEN 0 ELSE CHOOSE x \in S : \A y \in S : y <= x

\* committed value of k visible at instant i (0 = absent)
ValAt(k, i) ==
    LET es == {e \in ents : e.k = k /\ e.s < i} IN
    IF es = {} THEN 0 ELSE (CHOOSE e \in es : \A f \in es : f.s <= e.s).v
Latest(k) == ValAt(k, 1000)

\* the keyspace of a key: scans, ranges and their read footprints are per keyspace
KsOf(k) == IF k <= KsSplit THEN 1 ELSE 2

\* what transaction t reads for k: own write first, then the snapshot
TxVal(r, k) == IF r.w[k].set THEN r.w[k].v ELSE ValAt(k, r.inst)
\* evaluation of a read method on a given overlay function
\* range reads: one method per shape of (start bound, end bound) the conflict manager
\* distinguishes (Unbounded / Included / Excluded on either side; prefix() is the (Included,
\* Excluded) shape).  arg is the key the bounds are built from:
\*   range_lo ..=a    range_hi a..    range_pt a..=a    range_ue ..a     range_eu (a, ..)
\*   range_ie a..a+1  range_ei (a, a+1]                 range_ee (a, a+2)
\* prefix(a): the keys that start with a.  Which keys are prefixes of which is a fact about the
\* concretisation (the replay uses its key scheme 0 - "a", "ab", "b\\0", "b\\0\\0" - for behaviours
\* with prefix reads): key 1 is a proper prefix of key 2, key 3 of key 4; with two keyspaces
\* (KsSplit = 2) both hold the user keys 1, 2, which gives the same pairs.
RangeMethods == {"range_lo", "range_hi", "range_pt", "range_ue", "range_eu", "range_ie", "range_ei", "range_ee", "prefix"}
PfxPairs == {<<1, 2>>, <<3, 4>>}
InRange(m, a, x) ==
    CASE m = "prefix" -> x = a \/ <<a, x>> \in PfxPairs
      [] m = "range_lo" -> x <= a
      [] m = "range_hi" -> x >= a
      [] m = "range_pt" -> x = a
      [] m = "range_ue" -> x < a
      [] m = "range_eu" -> x > a
      [] m = "range_ie" -> a <= x /\ x < a + 1
      [] m = "range_ei" -> a < x /\ x <= a + 1
      [] m = "range_ee" -> a < x /\ x < a + 2
ReadMethods == {"get", "size_of", "scan"} \cup RangeMethods

EvalRead(m, arg, val) ==
    IF m \in {"get", "size_of", "rmw"} THEN val[arg]
    ELSE IF m = "scan" THEN (* the keyspace of arg *) {<<k, val[k]>> : k \in {x \in Keys : KsOf(x) = KsOf(arg) /\ val[x] # 0}}
    ELSE (* a range of arg's keyspace *)
         {<<k, val[k]>> : k \in {x \in Keys : KsOf(x) = KsOf(arg) /\ InRange(m, arg, x) /\ val[x] # 0}}

\* the read footprint the CODE records for each method
Footprint(m, arg) ==
    IF m \in {"get", "rmw"} THEN {<<"single", arg>>}
    ELSE IF m = "size_of" THEN (IF FixSizeOf THEN {<<"single", arg>>} ELSE {})
    ELSE IF m = "scan" THEN {<<"all", KsOf(arg)>>}
    ELSE {<<m, arg>>}      \* a range method: the range that was asked for
Covers(fp, k) == \/ fp[1] = "all" /\ KsOf(k) = fp[2]
                 \/ fp[1] = "single" /\ fp[2] = k
                 \/ fp[1] \in RangeMethods /\ KsOf(k) = KsOf(fp[2]) /\ InRange(fp[1], fp[2], k)

\* tracker
Cnt(i) == LET r == {p \in trk.cnt : p[1] = i} IN IF r = {} THEN 0 ELSE (CHOOSE p \in r : TRUE)[2]
SetCnt(T, i, n) == [T EXCEPT !.cnt = {p \in @ : p[1] # i} \cup {<<i, n>>}]
TrkOpen(T, i) == SetCnt(T, i, (LET r == {p \in T.cnt : p[1] = i} IN IF r = {} THEN 0 ELSE (CHOOSE p \in r : TRUE)[2]) + 1)
TrkClose(T, i) ==
    LET r == {p \in T.cnt : p[1] = i} IN
    IF r = {} THEN T ELSE LET n == (CHOOSE p \in r : TRUE)[2] IN SetCnt(T, i, IF n = 0 THEN 0 ELSE n - 1)
TrkGC(T, vis) ==
    LET keep == {p \in T.cnt : p[2] > 0 \/ p[1] >= vis}
        insts == {p[1] : p \in keep}
        lowest == IF keep = {} THEN vis ELSE CHOOSE x \in insts : \A y \in insts : x <= y
        cand == IF lowest = 0 THEN 0 ELSE lowest - 1
    IN [cnt |-> keep, wm |-> IF cand > T.wm THEN cand ELSE T.wm]

Init ==
    /\ seqno = 1 /\ visible = 1
    /\ ents = {}
    /\ tx = [t \in Txs |-> NoTx]
    /\ table = {} /\ trk = [cnt |-> {}, wm |-> 0]
    /\ writer = 0 /\ nval = 0 /\ commits = <<>> /\ allc = {} /\ bad = {} /\ last = [a |-> "Init"]

\* write_tx(): under the oracle mutex (optimistic) / the writer mutex (single writer): open a snapshot
Begin(t) ==
    /\ tx[t].st = "idle"
    /\ (SingleWriter => writer = 0)
    /\ writer' = IF SingleWriter THEN t ELSE writer
    /\ tx' = [tx EXCEPT ![t] = [NoTx EXCEPT !.st = "open", !.inst = visible]]
    /\ trk' = TrkOpen(trk, visible)
    /\ last' = [a |-> "Begin", t |-> t]
    /\ UNCHANGED <<seqno, visible, ents, table, nval, commits, allc, bad>>

\* a read method: result observed, footprint recorded
Read(t, m, arg) ==
    /\ tx[t].st = "open" /\ tx[t].nops < MaxOpsPerTx
    /\ m \in Methods \cap ReadMethods
    /\ LET r == tx[t]
           val == [k \in Keys |-> TxVal(r, k)]
           res == EvalRead(m, arg, val)
       IN /\ tx' = [tx EXCEPT ![t].obs = Append(@, [m |-> m, arg |-> arg, res |-> res, w |-> r.w]),
                           ![t].reads = @ \cup Footprint(m, arg),
                           ![t].nops = @ + 1]
          /\ last' = [a |-> "Read", t |-> t, m |-> m, arg |-> arg, res |-> res]
    /\ UNCHANGED <<seqno, visible, ents, table, trk, writer, nval, commits, allc, bad>>

\* insert / remove: ephemeral write, conflict key
Write(t, k, del) ==
    /\ tx[t].st = "open" /\ tx[t].nops < MaxOpsPerTx
    /\ (IF del THEN "remove" ELSE "insert") \in Methods
    /\ nval' = nval + 1
    /\ tx' = [tx EXCEPT ![t].w[k] = [set |-> TRUE, v |-> IF del THEN 0 ELSE nval + 1],
                        ![t].cks = @ \cup {k}, ![t].nw = @ + 1, ![t].nops = @ + 1]
    /\ last' = [a |-> "Write", t |-> t, k |-> k, del |-> del, v |-> IF del THEN 0 ELSE nval + 1]
    /\ UNCHANGED <<seqno, visible, ents, table, trk, writer, commits, allc, bad>>

\* fetch_update / update_fetch / take: read + conditional write + read footprint + conflict key
\* (modelled update function: present -> new value, absent -> new value)
Rmw(t, k, del) ==
    /\ tx[t].st = "open" /\ tx[t].nops < MaxOpsPerTx /\ "rmw" \in Methods
    /\ nval' = nval + 1
    /\ LET r == tx[t]
           val == [x \in Keys |-> TxVal(r, x)]
           nv == IF del THEN 0 ELSE nval + 1      \* take(): the closure answers None
           \* removing a key that is absent writes nothing (no tombstone)
           writes == ~(del /\ val[k] = 0)
       IN /\ last' = [a |-> "Rmw", t |-> t, k |-> k, prev |-> val[k], v |-> nv]
          /\ tx' = [tx EXCEPT ![t].obs = Append(@, [m |-> "rmw", arg |-> k, res |-> val[k], w |-> r.w]),
                           ![t].reads = @ \cup Footprint("rmw", k),
                           ![t].w[k] = IF writes THEN [set |-> TRUE, v |-> nv] ELSE @,
                           \* (the optimistic wrapper marks the conflict key whether or not something was written)
                           ![t].cks = @ \cup {k},
                           ![t].nw = IF writes THEN @ + 1 ELSE @, ![t].nops = @ + 1]
    /\ UNCHANGED <<seqno, visible, ents, table, trk, writer, commits, allc, bad>>

\* the single-operation helpers of the transactional keyspaces (insert / remove / take /
\* fetch_update / update_fetch on OptimisticTxKeyspace and SingleWriterTxKeyspace): a write
\* transaction of one operation, begun and committed in one go (the optimistic read-modify-write
\* helpers retry on conflict, so they always end committed); other transactions see them as one
\* more committed transaction with conflict key k
Helper(k, kind) ==
    /\ "helper" \in Methods
    /\ Cardinality({e \in ents : e.h}) < 2 /\ nval < 2 * MaxOpsPerTx + 2   \* (bounds for the exhaustive instances)
    /\ (SingleWriter => writer = 0)
    /\ nval' = nval + 1
    /\ LET s == seqno
           prev == Latest(k)
           nv == IF kind \in {"remove", "take"} THEN 0 ELSE nval + 1
           vis2 == IF s + 1 > visible THEN s + 1 ELSE visible
           \* take() of an absent key: a transaction without writes, nothing is committed
           writes == ~(kind = "take" /\ prev = 0)
       IN /\ ents' = IF writes THEN ents \cup {[k |-> k, s |-> s, v |-> nv, h |-> TRUE]} ELSE ents
          /\ seqno' = IF writes THEN s + 1 ELSE seqno
          /\ visible' = IF writes THEN vis2 ELSE visible
          /\ table' = IF SingleWriter \/ ~writes THEN table
                       ELSE {c \in table : c.ts # vis2} \cup {[ts |-> vis2, cks |-> {k}]}
          /\ allc' = IF SingleWriter \/ ~writes THEN allc ELSE allc \cup {[ts |-> vis2, cks |-> {k}]}
          /\ last' = [a |-> "Helper", kind |-> kind, k |-> k, prev |-> prev, v |-> nv,
                      store |-> [x \in Keys |-> IF x = k THEN nv ELSE Latest(x)]]
    /\ UNCHANGED <<tx, trk, writer, commits, bad>>

\* is the transaction serializable at its commit point?  every observation re-evaluated on
\* (committed state now) + (own writes before that read) must give the recorded result
SerializableNow(r) ==
    \A n \in 1..Len(r.obs) :
        LET o == r.obs[n]
            val == [k \in Keys |-> IF o.w[k].set THEN o.w[k].v ELSE Latest(k)]
        IN EvalRead(o.m, o.arg, val) = o.res

Conflicted(r) ==
    \E c \in table : /\ c.ts > r.inst
                     /\ \E fp \in r.reads : \E k \in c.cks : Covers(fp, k)

\* commit of a transaction without writes: returns Ok without touching the oracle
CommitReadOnly(t) ==
    /\ tx[t].st = "open" /\ tx[t].nw = 0
    /\ tx' = [tx EXCEPT ![t].st = "committed"]
    /\ trk' = TrkClose(trk, tx[t].inst)
    /\ writer' = IF writer = t THEN 0 ELSE writer
    /\ last' = [a |-> "Commit", t |-> t, outcome |-> "ok", store |-> [k \in Keys |-> Latest(k)]]
    /\ UNCHANGED <<seqno, visible, ents, table, nval, commits, allc, bad>>

\* Oracle::with_commit (optimistic) - atomic under the oracle mutex:
\* validate; close_raw(instant); prune by the watermark; if ok: apply batch at one seqno,
\* publish; register at ts = visible; the nonce is dropped afterwards (second close)
Commit(t) ==
    /\ tx[t].st = "open" /\ tx[t].nw > 0
    /\ LET r == tx[t]
           conf == ~SingleWriter /\ Conflicted(r)
           t1 == IF SingleWriter \/ FixDoubleClose THEN trk ELSE TrkClose(trk, r.inst)   \* close_raw
           tbl1 == IF EnGC THEN {c \in table : c.ts > t1.wm} ELSE table
           s == seqno
           newents == {[k |-> k, s |-> s, v |-> r.w[k].v, h |-> FALSE] : k \in {x \in Keys : r.w[x].set}}
           vis2 == IF s + 1 > visible THEN s + 1 ELSE visible
       IN
       IF conf
       THEN /\ tx' = [tx EXCEPT ![t].st = "conflict"]
            /\ table' = tbl1
            /\ trk' = TrkClose(t1, r.inst)          \* drop of the nonce
            /\ last' = [a |-> "Commit", t |-> t, outcome |-> "conflict", store |-> [k \in Keys |-> Latest(k)]]
            /\ UNCHANGED <<seqno, visible, ents, commits, allc, bad>>
       ELSE /\ ents' = ents \cup newents
            /\ seqno' = s + 1 /\ visible' = vis2
            \* BTreeMap::insert: an entry with the same timestamp is replaced
            /\ table' = IF SingleWriter THEN tbl1
                         ELSE {c \in tbl1 : c.ts # vis2} \cup {[ts |-> vis2, cks |-> r.cks]}
            /\ allc' = IF SingleWriter THEN allc ELSE allc \cup {[ts |-> vis2, cks |-> r.cks]}
            /\ tx' = [tx EXCEPT ![t].st = "committed"]
            /\ trk' = TrkClose(t1, r.inst)
            /\ commits' = Append(commits, t)
            /\ bad' = IF SerializableNow(r) THEN bad ELSE bad \cup {t}
            /\ last' = [a |-> "Commit", t |-> t, outcome |-> "ok",
                        store |-> [k \in Keys |-> IF r.w[k].set THEN r.w[k].v ELSE Latest(k)]]
    /\ writer' = IF writer = t THEN 0 ELSE writer
    /\ UNCHANGED nval

Rollback(t) ==
    /\ tx[t].st = "open"
    /\ tx' = [tx EXCEPT ![t].st = "rolled"]
    /\ trk' = TrkClose(trk, tx[t].inst)
    /\ writer' = IF writer = t THEN 0 ELSE writer
    /\ last' = [a |-> "Rollback", t |-> t]
    /\ UNCHANGED <<seqno, visible, ents, table, nval, commits, allc, bad>>

\* tracker gc (rotation, ingestion, every 10 000th close)
GC ==
    /\ EnGC
    /\ trk' = TrkGC(trk, visible)
    /\ trk' # trk
    /\ last' = [a |-> "GC"]
    /\ UNCHANGED <<seqno, visible, ents, tx, table, writer, nval, commits, allc, bad>>

\* a version upgrade of any tree (flush, compaction): draws a seqno and raises visible
Upgrade ==
    /\ EnGC /\ seqno < 6
    /\ seqno' = seqno + 1
    /\ visible' = IF seqno + 1 > visible THEN seqno + 1 ELSE visible
    /\ last' = [a |-> "Upgrade"]
    /\ UNCHANGED <<ents, tx, table, trk, writer, nval, commits, allc, bad>>

TxViewBase == <<seqno, visible, ents, tx, table, trk, writer, nval, commits, allc, bad>>

Next ==
    \/ \E t \in Txs : Begin(t) \/ CommitReadOnly(t) \/ Commit(t) \/ Rollback(t)
    \/ \E t \in Txs, m \in Methods, a \in Keys : Read(t, m, a)
    \/ \E t \in Txs, k \in Keys, d \in BOOLEAN : Write(t, k, d)
    \/ \E t \in Txs, k \in Keys, d \in BOOLEAN : Rmw(t, k, d)
    \/ \E k \in Keys, kind \in {"insert", "remove", "take", "rmw"} : Helper(k, kind)
    \/ GC \/ Upgrade

Spec == Init /\ [][Next]_vars

-----------------------------------------------------------------------------
\* C07: every accepted commit is serializable at its commit point (commit points are totally
\* ordered by the oracle mutex, consistent with real time)
Serializable == bad = {}
\* a refused or rolled back transaction leaves no effect
NoEffectUnlessCommitted ==
    \A e \in ents : e.h \/ \E t \in Txs : tx[t].st = "committed" /\ tx[t].w[e.k].set /\ tx[t].w[e.k].v = e.v
\* the pruning never removes an entry a live transaction still has to validate against
PruneKeepsNeeded ==
    \A t \in Txs : tx[t].st = "open" =>
        \A c \in allc : c.ts > tx[t].inst => c \in table
\* tracker: a live transaction's snapshot is protected (count > 0, watermark below it)
LiveSnapshotProtected ==
    \A t \in Txs : tx[t].st = "open" => (Cnt(tx[t].inst) > 0 /\ trk.wm < tx[t].inst)
\* C08: single writer: at most one open write transaction
SingleWriterExclusion ==
    SingleWriter => Cardinality({t \in Txs : tx[t].st = "open"}) <= 1
\* C08: read-your-writes / last write wins is how TxVal is defined; checked against the
\* implementation by replay.  Commit applies exactly the final write per key:
CommitIsFinalWrites ==
    \A t \in Txs : tx[t].st = "committed" /\ tx[t].nw > 0 =>
        \A k \in Keys : tx[t].w[k].set =>
            \E e \in ents : e.k = k /\ e.v = tx[t].w[k].v
=============================================================================
