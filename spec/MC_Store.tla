------------------------------ MODULE MC_Store ------------------------------
(* Bounded instances of FjallStore for TLC, and the JSON export used to     *)
(* replay behaviours against the implementation.                             *)
EXTENDS FjallStore, Json

\* everything except the action label
View == <<seqno, visible, nextId, kmap, meta, dirs, lsm, old, zombie, held, journals, jmgr,
          flushq, views, trk, filt, ref, frozen, taint, mtaint, ing, kf, everDel,
          nops, nreopen, nmaint, nviews>>

KsProj(n) ==
    LET id == kmap[n] IN
    [id      |-> id,
     point   |-> [k \in Keys |-> PointRead(id, k, Inf)],
     scan    |-> [k \in Keys |-> ScanRead(id, k, Inf)],
     ref     |-> [k \in Keys |-> ref[n][k]],
     tainted |-> id \in taint \cup mtaint,
     \* would a recovery from the current durable state be affected by finding D1D2
     ctaint  |-> id \in Rec.tnt \cup MayReplayOverIngested(journals, Rec.known),
     \* every value some source holds for the key (what a structure-dependent read can return)
     cand    |-> [k \in Keys |-> {e.v : e \in {x \in UnionSeq(Sources(lsm[id])) : x.k = k}}
                                  \* ... or a journal record of the keyspace holds (which of them a recovery
                                  \* replays depends on the seqnos left in the tables after compactions)
                                  \cup UNION {UNION {{r.items[z].v : z \in {w \in 1..Len(r.items) : r.items[w].id = id /\ r.items[w].k = k}}
                                                      : r \in {journals[x].recs[y] : y \in 1..Len(journals[x].recs)}}
                                               : x \in 1..Len(journals)}],
     sealed  |-> Len(lsm[id].sl),
     filter  |-> filt[id] # "none",
     fkind   |-> filt[id]]

ViewProj(w) ==
    [vid |-> w.vid,
     ks  |-> [n \in LiveNames |->
                [point  |-> [k \in Keys |-> PointRead(kmap[n], k, w.inst)],
                 scan   |-> [k \in Keys |-> ScanRead(kmap[n], k, w.inst)],
                 frozen |-> [k \in Keys |-> frozen[w.vid][n][k]],
                 tainted |-> kmap[n] \in taint \cup mtaint]]]

Projection ==
    [ks      |-> [n \in LiveNames |-> KsProj(n)],
     names   |-> LiveNames,
     views   |-> {ViewProj(w) : w \in views},
     jcount  |-> Len(journals),
     flushq  |-> Len(flushq),
     openviews |-> Cardinality(views),
     d15 |-> FindingD15,
     kf |-> kf,
     seqnoAboveJournal |-> SeqnoAboveJournal,
     seqnoAboveEntries |-> SeqnoAboveEntries]

\* printed once per state of a simulated behaviour (run with -workers 1): the harness splits
\* behaviours where lvl returns to 1
Export ==
    PrintT(<<"STEP", ToJson([lvl |-> TLCGet("level"), act |-> last, st |-> Projection])>>)

\* state constraint used by the exhaustive instances
Bounded ==
    /\ \A id \in Ids : Len(lsm[id].sl) <= 2 /\ Len(lsm[id].rn) <= 3 /\ Len(old[id]) <= 3
    /\ Len(journals) <= 3
    /\ Len(flushq) <= 2
=============================================================================
