------------------------------ MODULE FjallMVCC ------------------------------
(***************************************************************************)
(* Visibility under concurrency: writer threads stepping through the        *)
(* journal critical section (draw - apply item by item - publish), version  *)
(* upgrades of any tree (flush, compaction, clear, ingestion, keyspace      *)
(* creation) which draw from the SHARED seqno counter and raise the SHARED  *)
(* visible counter without the journal mutex, snapshot readers, and plain   *)
(* reads at SeqNo::MAX.  Serves C06 (batch atomicity, commit order), the    *)
(* concurrent half of C05 (a live view never changes) and C14 (single       *)
(* operations linearizable, nothing lost).                                   *)
(***************************************************************************)
EXTENDS Naturals, Sequences, FiniteSets, TLC

CONSTANTS
    Threads,     \* writer / reader threads
    Cells,       \* set of <<keyspace, key>> pairs
    Programs,    \* [Threads -> Seq of write operations]; an operation is a Seq of <<cell, value>> items
    MaxUpgrades, \* version upgrades by background workers
    MaxViews

VARIABLES
    seqno, visible,
    lock,       \* holder of the journal mutex (0 = free)
    w,          \* [Threads -> [st, s, items, ai]]  st: "idle" | "drawn" | "applying"
    pcnt,       \* [Threads -> number of operations of the thread's program already started]
    ents,       \* applied entries: set of [c, s, v]
    pend,       \* seqnos drawn by version upgrades that have not yet raised visible
    nup,
    views,      \* live views: set of [vid, inst]
    nviews,
    seenv,      \* history: [vid -> [Cells -> value]] what each view read first
    kf7         \* history: visible was raised above an in-flight write by a version upgrade (D7)

vars == <<seqno, visible, lock, w, pcnt, ents, pend, nup, views, nviews, seenv, kf7>>

Idle == [st |-> "idle", s |-> 0, items |-> <<>>, ai |-> 0]
\* ("published": visible already raised, mutex not yet released - only distinguished in traces)
InFlight == {t \in Threads : w[t].st \in {"drawn", "applying"}}

\* value of cell c for a reader at instant i: newest applied entry below i (0 = absent)
ValAt(c, i) ==
    LET es == {e \in ents : e.c = c /\ e.s < i} IN
    IF es = {} THEN 0 ELSE (CHOOSE e \in es : \A f \in es : f.s <= e.s).v
Cur(c) == ValAt(c, 100000)

Init ==
    /\ seqno = 0 /\ visible = 0 /\ lock = 0
    /\ w = [t \in Threads |-> Idle] /\ pcnt = [t \in Threads |-> 0]
    /\ ents = {} /\ pend = {} /\ nup = 0
    /\ views = {} /\ nviews = 0 /\ seenv = <<>> /\ kf7 = FALSE

\* get_writer() + poison check + seqno.next() (+ journal append)
LockDraw(t, items) ==
    /\ w[t].st = "idle" /\ lock = 0
    /\ lock' = t
    /\ w' = [w EXCEPT ![t] = [st |-> "drawn", s |-> seqno, items |-> items, ai |-> 0]]
    /\ seqno' = seqno + 1
    /\ UNCHANGED <<visible, pcnt, ents, pend, nup, views, nviews, seenv, kf7>>

\* the next item of the operation reaches its memtable
Apply(t) ==
    /\ w[t].st \in {"drawn", "applying"} /\ w[t].ai < Len(w[t].items)
    /\ LET it == w[t].items[w[t].ai + 1] IN
       ents' = ents \cup {[c |-> it[1], s |-> w[t].s, v |-> it[2]]}
    /\ w' = [w EXCEPT ![t].ai = @ + 1, ![t].st = "applying"]
    /\ UNCHANGED <<seqno, visible, lock, pcnt, pend, nup, views, nviews, seenv, kf7>>

\* snapshot_tracker.publish(seqno) + unlock
Publish(t) ==
    /\ w[t].st \in {"drawn", "applying"} /\ w[t].ai = Len(w[t].items) /\ lock = t
    /\ visible' = IF w[t].s + 1 > visible THEN w[t].s + 1 ELSE visible
    /\ lock' = 0
    /\ w' = [w EXCEPT ![t] = Idle]
    /\ UNCHANGED <<seqno, pcnt, ents, pend, nup, views, nviews, seenv, kf7>>

\* the thread starts the next operation of its program
StartNext(t) ==
    /\ pcnt[t] < Len(Programs[t])
    /\ LockDraw(t, Programs[t][pcnt[t] + 1])
\* (pcnt is advanced together with the draw)
StartOp(t) ==
    /\ pcnt[t] < Len(Programs[t])
    /\ w[t].st = "idle" /\ lock = 0
    /\ lock' = t
    /\ w' = [w EXCEPT ![t] = [st |-> "drawn", s |-> seqno, items |-> Programs[t][pcnt[t] + 1], ai |-> 0]]
    /\ seqno' = seqno + 1
    /\ pcnt' = [pcnt EXCEPT ![t] = @ + 1]
    /\ UNCHANGED <<visible, ents, pend, nup, views, nviews, seenv, kf7>>

\* lsm-tree upgrade_version: seqno.next() under the tree's version lock ...
UDraw ==
    /\ nup < MaxUpgrades
    /\ pend' = pend \cup {seqno}
    /\ seqno' = seqno + 1
    /\ nup' = nup + 1
    /\ UNCHANGED <<visible, lock, w, pcnt, ents, views, nviews, seenv, kf7>>
\* ... persist the version ... then visible_seqno.fetch_max(seqno + 1), without the journal mutex
UBump(u) ==
    /\ u \in pend
    /\ pend' = pend \ {u}
    /\ visible' = IF u + 1 > visible THEN u + 1 ELSE visible
    /\ kf7' = (kf7 \/ \E t \in InFlight : w[t].s < u + 1 /\ u + 1 > visible)
    /\ UNCHANGED <<seqno, lock, w, pcnt, ents, nup, views, nviews, seenv>>

\* Database::snapshot(): instant := visible
OpenView ==
    /\ nviews < MaxViews
    /\ views' = views \cup {[vid |-> nviews + 1, inst |-> visible]}
    /\ seenv' = Append(seenv, [c \in Cells |-> ValAt(c, visible)])
    /\ nviews' = nviews + 1
    /\ UNCHANGED <<seqno, visible, lock, w, pcnt, ents, pend, nup, kf7>>
CloseView(v) ==
    /\ v \in views
    /\ views' = views \ {v}
    /\ UNCHANGED <<seqno, visible, lock, w, pcnt, ents, pend, nup, nviews, seenv, kf7>>

Next ==
    \/ \E t \in Threads : StartOp(t) \/ Apply(t) \/ Publish(t)
    \/ UDraw \/ \E u \in pend : UBump(u)
    \/ OpenView \/ \E v \in views : CloseView(v)

Spec == Init /\ [][Next]_vars

-----------------------------------------------------------------------------
\* C06: no reader instant lies above an in-flight write: a view sees each operation entirely or
\* not at all, and if it sees an operation it sees every operation with a smaller seqno
NoTornBatch == \A v \in views : \A t \in InFlight : w[t].s >= v.inst
InflightAboveVisible == \A t \in InFlight : visible <= w[t].s
\* C05: a live view keeps reading what it read first
ViewsFrozen == \A v \in views : \A c \in Cells : ValAt(c, v.inst) = seenv[v.vid][c]
\* C14: seqno order = order of the critical sections = apply order
MutualExclusion == Cardinality({t \in Threads : w[t].st # "idle"}) <= 1
\* the known finding: visible raised above an in-flight write by a version upgrade
NoFinding_D7 == ~kf7
\* the invariants hold everywhere except downstream of the known finding
NoTornBatchKF == kf7 \/ NoTornBatch
ViewsFrozenKF == kf7 \/ ViewsFrozen
InflightAboveVisibleKF == kf7 \/ InflightAboveVisible
=============================================================================
