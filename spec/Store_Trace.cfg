SPECIFICATION TraceSpec
CONSTANTS
  Keys = {1, 2}
  Names = {"a", "b"}
  MaxId = 4
  MaxOps = 90
  MaxReopen = 90
  MaxMaint = 900
  MaxViews = 90
  EnBatch = TRUE
  EnClear = TRUE
  EnIngest = TRUE
  EnKs = TRUE
  EnJRot = TRUE
  EnViews = TRUE
  EnCompact = TRUE
  EnPersist = TRUE
  EnRemove = TRUE
  FilterNames = {}
  FixCovered = TRUE
  FixSeqno = TRUE
  FixIdSeed = TRUE
  FixMetaSeqno = TRUE
  FixTrkZero = TRUE
INVARIANTS ExportStep
CHECK_DEADLOCK FALSE
