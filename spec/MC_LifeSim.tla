------------------------------ MODULE MC_LifeSim ------------------------------
(* DbLifecycle under TLC's simulator, at the grain a single client thread sees: every client
   step (open attempt, marker replacement, clone / drop of a handle, keyspace, write, message
   sent through a keyspace handle) is followed by the internal steps it enables, run to
   completion; the observable state at each quiescent point is recorded before the next client
   step.  One behaviour per line; the harness executes the client steps on the real code (real
   worker threads) and compares the observables. *)
EXTENDS DbLifecycle, Json
CONSTANT SimDepth
VARIABLE hist

AttInFlight == \E a \in Inst : att[a].st \in {"begun", "locked"}
InternalStep == \E i \in Inst :
    \/ \E w \in Wk : WRecv(i, w) \/ WDone(i, w, TRUE) \/ WDone(i, w, FALSE) \/ WDoneRotation(i, w) \/ WDec(i, w) \/ WRel(i, w)
    \/ DStop(i) \/ DLoopCheck(i) \/ DSendClose(i) \/ DDrain2(i) \/ DClear(i) \/ DRelSup(i) \/ DRelRx(i) \/ DRelLock(i)
    \/ KDrop(i) \/ KRelSup(i) \/ KRelLock(i)
Quiet == ~AttInFlight /\ ~ENABLED InternalStep

LastAtt == IF \E a \in Inst : att[a].st = "done"
           THEN LET a == CHOOSE a \in Inst : att[a].st = "done" /\ \A b \in Inst : att[b].st = "done" => b <= a
                IN [n |-> a, res |-> att[a].res, mods |-> att[a].mods]
           ELSE [n |-> 0, res |-> "-", mods |-> 0]
Obs == [flock |-> flock, marker |-> marker, last |-> LastAtt,
        insts |-> [i \in Inst |-> [up |-> I[i].up, db |-> I[i].db, ksu |-> I[i].ksu,
                                   journal |-> I[i].journal, workers |-> Cardinality(WorkersRunning(i)),
                                   ks |-> I[i].ks]]]

Act(name, i, m) == [a |-> name, i |-> i, m |-> m, obs |-> Obs]

SimInit == Init /\ hist = <<>>
SimNext ==
    IF ~Quiet
    THEN /\ \/ \E a \in Inst : AttLock(a) \/ AttFinish(a)
            \/ InternalStep
         /\ UNCHANGED hist
    ELSE \/ AttBegin /\ hist' = Append(hist, Act("Open", 0, "-"))
         \* (at most one replacement of the marker between two other steps)
         \/ /\ hist # <<>> /\ hist[Len(hist)].a # "SetMarker"
            /\ \E m \in Markers : SetMarker(m) /\ hist' = Append(hist, Act("SetMarker", 0, m))
         \/ \E i \in Inst :
              \/ CloneDb(i) /\ hist' = Append(hist, Act("CloneDb", i, "-"))
              \/ DropDb(i) /\ hist' = Append(hist, Act("DropDb", i, "-"))
              \/ OpenKs(i) /\ hist' = Append(hist, Act("OpenKs", i, "-"))
              \/ CloneKs(i) /\ hist' = Append(hist, Act("CloneKs", i, "-"))
              \/ DropKs(i) /\ hist' = Append(hist, Act("DropKs", i, "-"))
              \/ Write(i) /\ hist' = Append(hist, Act("Write", i, "-"))
              \/ Sync(i) /\ hist' = Append(hist, Act("Sync", i, "-"))
              \/ KsSend(i, "Compact") /\ hist' = Append(hist, Act("KsSend", i, "-"))
SimSpec == SimInit /\ [][SimNext]_<<vars, hist>>
\* the record of a step carries the observables BEFORE it (the quiescent state the previous
\* step led to); the final observables are appended on export
ExportHist == (TLCGet("level") = SimDepth /\ Quiet) => PrintT(<<"BEHAVIOUR", ToJson(Append(hist, Act("End", 0, "-")))>>)
=============================================================================
