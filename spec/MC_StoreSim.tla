---------------------------- MODULE MC_StoreSim ----------------------------
(* FjallStore under TLC's simulator, with the action history carried along. *)
EXTENDS MC_Store

\* simulation with the action history carried along: every state TLC evaluates at the final
\* level is a complete behaviour, printed as one line of action records
CONSTANT SimDepth
VARIABLE hist
SimInit == Init /\ hist = <<>>
SimNext == Next /\ hist' = Append(hist, last')
SimSpec == SimInit /\ [][SimNext]_<<vars, hist>>
ExportHist == TLCGet("level") = SimDepth => PrintT(<<"BEHAVIOUR", ToJson(hist)>>)

=============================================================================
