---------------------------- MODULE MC_StoreSim ----------------------------
(* FjallStore under TLC's simulator, with the action history carried along. *)
EXTENDS MC_Store

\* simulation with the action history carried along: every state TLC evaluates at the final
\* level is a complete behaviour, printed as one line of action records.
\*
\* TLC's simulator chooses uniformly among all successor STATES, so an action with many
\* parameter combinations (a two-item batch) crowds out the ones with few (a flush).  The
\* behaviours are therefore generated in two phases per step: first an action KIND is drawn
\* (maintenance kinds carry more weight), then one enabled instance of that kind is taken.
\* The set of behaviours is the same as that of Next; only the sampling distribution changes.
CONSTANT SimDepth
VARIABLES hist, pick

OfKind(k) ==
    CASE k = "ks"      -> \/ \E n \in Names : CreateKeyspace(n)
                          \/ \E n \in Names, b \in BOOLEAN : DeleteKeyspace(n, b)
                          \/ \E id \in Ids : DropHandle(id)
                          \/ \E id \in Ids, n2 \in Names, k1, k2 \in Keys, d1, d2 \in BOOLEAN : StaleBatch(id, k1, d1, n2, k2, d2)
      [] k = "write"   -> \E n \in Names, kk \in Keys, d \in BOOLEAN : Write(n, kk, d)
      [] k = "batch"   -> \E n1, n2 \in Names, k1, k2 \in Keys, d1, d2 \in BOOLEAN, dur \in BatchDurs : BatchCommit(n1, k1, d1, n2, k2, d2, dur)
      [] k = "clear"   -> \E n \in Names : Clear(n)
      [] k = "ingest"  -> \E n \in Names, ks \in SUBSET Keys, tb \in SUBSET Keys : Ingest(n, ks, tb)
      [] k = "rotate"  -> \E n \in Names : Rotate(n)
      [] k = "flush"   -> \E b \in BOOLEAN : WorkerFlush(b)
      [] k = "compact" -> \E n \in Names, i, j \in 1..4 : Compact(n, i, j)
      [] k = "persist" -> \E m \in {"Buffer", "SyncData", "SyncAll"} : Persist(m)
      [] k = "view"    -> OpenView \/ (\E w \in views : CloseView(w)) \/ TrackerGC
      [] k = "reopen"  -> CloseReopen

\* <<kind, weight index>>
Kinds == {<<"ks", 1>>, <<"write", 1>>, <<"write", 2>>, <<"write", 3>>, <<"batch", 1>>, <<"batch", 2>>,
          <<"clear", 1>>, <<"ingest", 1>>, <<"rotate", 1>>, <<"rotate", 2>>, <<"flush", 1>>, <<"flush", 2>>,
          <<"flush", 3>>, <<"compact", 1>>, <<"compact", 2>>, <<"persist", 1>>, <<"view", 1>>, <<"reopen", 1>>}
NoPick == <<"none", 0>>

SimInit == Init /\ hist = <<>> /\ pick = NoPick
SimNext ==
    \/ /\ pick = NoPick
       /\ \E k \in Kinds : ENABLED OfKind(k[1]) /\ pick' = k
       /\ UNCHANGED <<vars, hist>>
    \/ /\ pick # NoPick /\ OfKind(pick[1])
       /\ hist' = Append(hist, last') /\ pick' = NoPick
SimSpec == SimInit /\ [][SimNext]_<<vars, hist, pick>>
ExportHist == (TLCGet("level") = SimDepth /\ hist # <<>>) => PrintT(<<"BEHAVIOUR", ToJson(hist)>>)

=============================================================================
