------------------------------ MODULE WorkerQueue2 ------------------------------
(***************************************************************************)
(* The worker pool's message protocol once more, now with what the         *)
(* messages really carry (WorkerQueue abstracts both away):                 *)
(*   - several keyspaces: RotateMemtable(keyspace, memtable id) requests,   *)
(*     per-keyspace sealed memtables, ONE flush-task FIFO shared by all     *)
(*     keyspaces (a Flush message pops whatever task is at its head), a     *)
(*     flush task flushes ALL sealed memtables of its keyspace;             *)
(*   - the memtable id in a rotation request: inner_rotate_memtable does    *)
(*     nothing unless the id is still the active memtable's (a request is   *)
(*     stale as soon as somebody else rotated).                             *)
(* Questions: can a keyspace sit at 4 sealed memtables - its writers        *)
(* stalled in local_backpressure - while nobody will ever flush it?  Does   *)
(* every queued flush task have an announcement under way?                  *)
(* src/worker_pool.rs worker_tick, src/keyspace/mod.rs request_rotation,    *)
(* inner_rotate_memtable, local_backpressure; src/flush/worker.rs.          *)
(***************************************************************************)
EXTENDS Naturals, Sequences, FiniteSets

CONSTANTS NWorkers, QCap, MaxWrites, Ks,
          AsFound,        \* TRUE: the code before fix 80259e9 - the worker that sealed a memtable announces the
                          \* flush task with a blocking send(Flush); FALSE: it runs a flush task itself
          FlushTrySend    \* TRUE (not the code; with AsFound): the flush task is announced with try_send

VARIABLES q,       \* Seq of [t: "R", k, m] | [t: "F"] | [t: "C"]
          wk,      \* [W -> [st, k, m]]
          act,     \* [Ks -> id of the active memtable]
          big,     \* [Ks -> the active memtable is over its limit]
          sealed,  \* [Ks -> sealed memtables waiting for a flush]
          tasks,   \* the flush manager's FIFO: Seq of Ks
          nw,
          lock     \* journal mutex: writers hold it for a write, a worker to seal / to dequeue
vars == <<q, wk, act, big, sealed, tasks, nw, lock>>
W == 1..NWorkers
Idle == [st |-> "idle", k |-> 0, m |-> 0]

Init == /\ q = <<>> /\ wk = [w \in W |-> Idle]
        /\ act = [k \in Ks |-> 1] /\ big = [k \in Ks |-> FALSE] /\ sealed = [k \in Ks |-> 0]
        /\ tasks = <<>> /\ nw = 0 /\ lock = 0

TrySend(s, m) == IF Len(s) < QCap THEN Append(s, m) ELSE s

\* a write to keyspace k (atomic under the journal mutex): stalls while 4 sealed memtables wait;
\* over the limit it requests a rotation of the memtable that is active NOW
Write(k) ==
    /\ nw < MaxWrites /\ sealed[k] < 4 /\ lock = 0
    /\ nw' = nw + 1 /\ big' = [big EXCEPT ![k] = TRUE]
    /\ q' = TrySend(q, [t |-> "R", k |-> k, m |-> act[k]])
    /\ UNCHANGED <<wk, act, sealed, tasks, lock>>

Recv(w) ==
    /\ wk[w].st = "idle" /\ q # <<>>
    /\ LET m == Head(q) IN
       /\ q' = Tail(q)
       /\ wk' = [wk EXCEPT ![w] =
                   CASE m.t = "R" -> [st |-> "needLockR", k |-> m.k, m |-> m.m]
                     [] m.t = "F" -> [st |-> "needLockF", k |-> 0, m |-> 0]
                     [] m.t = "C" -> IF NWorkers > 1 /\ w = 1 THEN [st |-> "sendCompact", k |-> 0, m |-> 0] ELSE Idle]
    /\ UNCHANGED <<act, big, sealed, tasks, nw, lock>>

\* with the journal mutex: seal the memtable (only if the request is not stale) and enqueue the
\* flush task; or dequeue the task at the head of the FIFO
Acquire(w) ==
    /\ wk[w].st \in {"needLockR", "needLockF"} /\ lock = 0
    /\ IF wk[w].st = "needLockR"
       THEN LET k == wk[w].k IN
            IF wk[w].m = act[k] /\ big[k]
            THEN /\ sealed' = [sealed EXCEPT ![k] = @ + 1] /\ tasks' = Append(tasks, k)
                 /\ act' = [act EXCEPT ![k] = @ + 1] /\ big' = [big EXCEPT ![k] = FALSE]
                 /\ wk' = [wk EXCEPT ![w] = IF AsFound THEN [st |-> "sendFlush", k |-> k, m |-> 0]
                                                        ELSE [st |-> "needLockF", k |-> 0, m |-> 0]]
            ELSE /\ wk' = [wk EXCEPT ![w] = Idle] /\ UNCHANGED <<sealed, tasks, act, big>>
       ELSE IF tasks # <<>>
            THEN /\ wk' = [wk EXCEPT ![w] = [st |-> "flushing", k |-> Head(tasks), m |-> 0]]
                 /\ tasks' = Tail(tasks) /\ UNCHANGED <<sealed, act, big>>
            ELSE /\ wk' = [wk EXCEPT ![w] = Idle] /\ UNCHANGED <<sealed, tasks, act, big>>
    /\ UNCHANGED <<q, nw, lock>>

\* the announcement of the flush task: blocking send (the code) or try_send (the variant)
SendFlush(w) ==
    /\ wk[w].st = "sendFlush" /\ (Len(q) < QCap \/ FlushTrySend)
    /\ q' = TrySend(q, [t |-> "F"])
    /\ wk' = [wk EXCEPT ![w] = Idle]
    /\ UNCHANGED <<act, big, sealed, tasks, nw, lock>>

\* tree.flush(): every sealed memtable of the task's keyspace becomes a table; compaction requests
\* (pool_size of them) by try_send
RECURSIVE TrySendN(_, _, _)
TrySendN(s, m, n) == IF n = 0 THEN s ELSE TrySendN(TrySend(s, m), m, n - 1)
FlushDone(w) ==
    /\ wk[w].st = "flushing"
    /\ sealed' = [sealed EXCEPT ![wk[w].k] = 0]
    /\ q' = TrySendN(q, [t |-> "C"], NWorkers)
    /\ wk' = [wk EXCEPT ![w] = Idle]
    /\ UNCHANGED <<act, big, tasks, nw, lock>>

\* worker 0 hands a Compact message back (blocking send)
SendCompact(w) ==
    /\ wk[w].st = "sendCompact" /\ Len(q) < QCap
    /\ q' = Append(q, [t |-> "C"]) /\ wk' = [wk EXCEPT ![w] = Idle]
    /\ UNCHANGED <<act, big, sealed, tasks, nw, lock>>

WorkerStep(w) == Recv(w) \/ Acquire(w) \/ SendFlush(w) \/ FlushDone(w) \/ SendCompact(w)
Next == (\E k \in Ks : Write(k)) \/ \E w \in W : WorkerStep(w)
Spec == Init /\ [][Next]_vars
FairSpec == Spec /\ \A w \in W : WF_vars(WorkerStep(w))

-----------------------------------------------------------------------------
RECURSIVE CountF(_)
CountF(s) == IF s = <<>> THEN 0 ELSE (IF Head(s).t = "F" THEN 1 ELSE 0) + CountF(Tail(s))
\* every queued flush task has its announcement under way
TasksAnnounced == Len(tasks) <= CountF(q) + Cardinality({w \in W : wk[w].st \in {"sendFlush", "needLockF"}})

\* a keyspace whose sealed memtables nobody has been asked to flush
RECURSIVE InSeq(_, _)
InSeq(s, k) == IF s = <<>> THEN FALSE ELSE Head(s) = k \/ InSeq(Tail(s), k)
SealedHasTask == \A k \in Ks : sealed[k] > 0 => (InSeq(tasks, k) \/ \E w \in W : wk[w].st = "flushing" /\ wk[w].k = k)

\* every worker blocked in a send into the full queue: nobody will ever receive again
AllBlocked == /\ \A w \in W : wk[w].st \in {"sendFlush", "sendCompact"}
              /\ Len(q) = QCap
\* C14, last clause, as a state predicate: writers of a keyspace are never stalled (4 sealed
\* memtables) in a state from which no worker can move
NoStalledForEver == ~(AllBlocked /\ \E k \in Ks : sealed[k] >= 4)
\* ... and as a liveness property under weak fairness of the workers: a stall ends
StallEnds == \A k \in Ks : (sealed[k] >= 4) ~> (sealed[k] < 4)
=============================================================================
