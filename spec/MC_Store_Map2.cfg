\* C01: two keyspaces, batches across keyspaces (2 ops, 3 maintenance steps; 3 ops in thorough)
SPECIFICATION Spec
CONSTANTS
  Keys = {1, 2}
  Names = {"a", "b"}
  MaxId = 2
  MaxOps = 2
  MaxReopen = 0
  MaxMaint = 3
  MaxViews = 0
  EnBatch = TRUE
  EnClear = TRUE
  EnIngest = FALSE
  EnKs = FALSE
  EnJRot = FALSE
  EnViews = FALSE
  EnCompact = TRUE
  EnPersist = FALSE
  EnRemove = TRUE
  FilterNames = {}
  FixCovered = TRUE
  FixSeqno = TRUE
  FixIdSeed = TRUE
  FixMetaSeqno = TRUE
  FixTrkZero = TRUE
VIEW View
CONSTRAINT Bounded
INVARIANTS PointEqScan ViewEqRef SeqnoAboveEntries SeqnoAboveJournal VisibleLeSeqno JournalsConsistent CrashSafe RecoveryNeverPanics
CHECK_DEADLOCK FALSE
