\* C17: validation of recorded lifecycle traces (hooks + harness events) against DbLifecycle
SPECIFICATION TraceSpec
CONSTANTS
  NWorkers = 4
  MaxAttempts = 24
  MaxDb = 100000
  MaxKs = 100000
  MaxSends = 100000
  QCap = 1000
  Markers = {}
  ExitOrder = "rel_first"
  FailCounts = TRUE
  WorkerMayFail = TRUE
  AdoptGuard = TRUE
  WeakMessager = TRUE
  CloseSend = "try"
  DrainInLoop = TRUE
INVARIANTS HandleImpliesLock AtMostOneInstance UnlockAfterSync NoUnsyncedOpen DropReturnedWorkersGone
CONSTRAINT TrackL
POSTCONDITION TraceAccepted
CHECK_DEADLOCK FALSE
