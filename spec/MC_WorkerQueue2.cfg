\* C14: several keyspaces, rotation requests with memtable ids (2 workers, queue capacity 4)
SPECIFICATION Spec
CONSTANTS
  NWorkers = 2
  QCap = 4
  MaxWrites = 10
  Ks = {1, 2}
  FlushTrySend = FALSE
INVARIANTS TasksAnnounced SealedHasTask NoStalledForEver
CHECK_DEADLOCK FALSE
