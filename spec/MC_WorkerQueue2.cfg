\* C14: several keyspaces, rotation requests with memtable ids (3 workers, queue capacity 4)
SPECIFICATION Spec
CONSTANTS
  NWorkers = 3
  QCap = 4
  MaxWrites = 9
  Ks = {1, 2}
  AsFound = FALSE
  FlushTrySend = FALSE
INVARIANTS TasksAnnounced SealedHasTask NoStalledForEver
CHECK_DEADLOCK FALSE
