------------------------------- MODULE MC_JF -------------------------------
EXTENDS JournalFormat
P(ks, k, v, z) == [op |-> "put", ks |-> ks, k |-> k, v |-> v, z |-> z]
D(ks, k) == [op |-> "del", ks |-> ks, k |-> k, v |-> 0, z |-> FALSE]
C(ks) == [op |-> "clear", ks |-> ks, k |-> 0, v |-> 0, z |-> FALSE]
\* quick: batches of one entry: value / empty value / compressed value / tombstone / clear
ShapesQuick == { <<P(1, 1, 1, FALSE)>>, <<P(1, 1, 2, TRUE)>>, <<P(2, 2, 0, FALSE)>>, <<D(1, 1)>>, <<C(1)>> }
\* thorough: also two-entry batches over 2 keys and 2 keyspaces
ShapesThorough == ShapesQuick \cup { <<P(1, 1, 3, FALSE), P(2, 1, 3, FALSE)>>, <<P(1, 2, 4, TRUE), D(1, 1)>>,
                                    <<D(2, 2), P(1, 1, 5, FALSE)>>, <<C(2), P(2, 1, 6, FALSE)>> }
GarbageVals == {1, 2, 3, 4, 5, 88}
=============================================================================
