------------------------------ MODULE WorkerQueue ------------------------------
(***************************************************************************)
(* The worker pool's message protocol (src/worker_pool.rs worker_tick,     *)
(* src/keyspace/mod.rs request_rotation / inner_rotate_memtable): a        *)
(* bounded queue; writers request rotations with try_send (dropped when    *)
(* the queue is full); a worker that executes a RotateMemtable message     *)
(* seals the memtable, enqueues a flush task and then - as found -         *)
(* announced it with a BLOCKING send(Flush) into the same queue (D28;      *)
(* since fix 80259e9 it runs a flush task itself); a worker that finished a *)
(* flush requests compactions with try_send; with more than one worker,    *)
(* worker 0 hands Compact messages back with a blocking send.  Writers     *)
(* stall while 4 sealed memtables are waiting.                             *)
(*                                                                         *)
(* The liveness question: is every sealed memtable eventually flushed,     *)
(* i.e. can background work stop for ever?  (Stale rotation requests are   *)
(* abstracted by the flag `big`; WorkerQueue2 carries the memtable ids.)   *)
(***************************************************************************)
EXTENDS Naturals, Sequences, FiniteSets

CONSTANTS NWorkers, QCap, MaxWrites,
          SendUnderLock,  \* TRUE: the rotating worker still holds the journal mutex while it sends (not the code)
          FlushTrySend,   \* TRUE: the flush task is announced with try_send, i.e. dropped when the queue is full (not the code)
          InlineFlush     \* TRUE (the code since fix 80259e9): a worker that sealed a memtable runs a flush task
                          \* itself; FALSE (as found): it announces the task with a blocking send(Flush)

VARIABLES q,        \* the queue: Seq of "Rotate" | "Flush" | "Compact"
          wk,       \* [1..NWorkers -> "idle" | "needLockR" | "needLockF" | "sendFlush" | "flushing" | "sendCompact"]
          sealed,   \* sealed memtables waiting for their flush
          tasks,    \* queued flush tasks
          big,      \* the active memtable is over its size limit (a rotation is due)
          nw,       \* writes performed
          lock      \* holder of the journal mutex (0 = free): writers take it for every write, the
                    \* rotating worker takes it to seal the memtable
vars == <<q, wk, sealed, tasks, big, nw, lock>>
W == 1..NWorkers

Init == q = <<>> /\ wk = [w \in W |-> "idle"] /\ sealed = 0 /\ tasks = 0 /\ big = FALSE /\ nw = 0 /\ lock = 0

\* a write: stalls while 4 sealed memtables wait; over the limit it requests a rotation
Write == /\ nw < MaxWrites /\ sealed < 4 /\ lock = 0
         /\ nw' = nw + 1 /\ big' = TRUE
         /\ q' = IF Len(q) < QCap THEN Append(q, "Rotate") ELSE q      \* try_send
         /\ UNCHANGED <<wk, sealed, tasks, lock>>

\* a worker takes the next message; a RotateMemtable and a Flush message both start by taking the
\* journal mutex (to seal the memtable / to check whether the journal has to be rotated)
Recv(w) ==
    /\ wk[w] = "idle" /\ q # <<>>
    /\ LET m == Head(q) IN
       /\ q' = Tail(q)
       /\ wk' = [wk EXCEPT ![w] = CASE m = "Rotate" -> "needLockR"
                                     [] m = "Flush" -> "needLockF"
                                     [] m = "Compact" -> IF NWorkers > 1 /\ w = 1 THEN "sendCompact" ELSE "idle"]
    /\ UNCHANGED <<sealed, tasks, big, nw, lock>>

Acquire(w) ==
    /\ wk[w] \in {"needLockR", "needLockF"} /\ lock = 0
    /\ IF wk[w] = "needLockR"
       THEN \* stale request (memtable already rotated): nothing to do
            IF big THEN /\ sealed' = sealed + 1 /\ tasks' = tasks + 1 /\ big' = FALSE
                        /\ wk' = [wk EXCEPT ![w] = IF InlineFlush THEN "needLockF" ELSE "sendFlush"]
                        /\ lock' = IF SendUnderLock /\ ~InlineFlush THEN w ELSE 0
                   ELSE /\ wk' = [wk EXCEPT ![w] = "idle"] /\ UNCHANGED <<sealed, tasks, big, lock>>
       ELSE IF tasks > 0 THEN /\ tasks' = tasks - 1 /\ wk' = [wk EXCEPT ![w] = "flushing"]
                              /\ UNCHANGED <<sealed, big, lock>>
                         ELSE /\ wk' = [wk EXCEPT ![w] = "idle"] /\ UNCHANGED <<sealed, tasks, big, lock>>
    /\ UNCHANGED <<q, nw>>

\* blocking send(Flush) of the rotating worker
SendFlush(w) == /\ wk[w] = "sendFlush" /\ (Len(q) < QCap \/ FlushTrySend)
                /\ q' = IF Len(q) < QCap THEN Append(q, "Flush") ELSE q
                /\ wk' = [wk EXCEPT ![w] = "idle"]
                /\ lock' = IF lock = w THEN 0 ELSE lock
                /\ UNCHANGED <<sealed, tasks, big, nw>>
\* the flush is done: the sealed memtable is gone; compaction requests by try_send
FlushDone(w) == /\ wk[w] = "flushing"
                /\ sealed' = sealed - 1
                /\ q' = IF Len(q) < QCap THEN Append(q, "Compact") ELSE q
                /\ wk' = [wk EXCEPT ![w] = "idle"]
                /\ UNCHANGED <<tasks, big, nw, lock>>
\* worker 0 hands a Compact message back (blocking send)
SendCompact(w) == /\ wk[w] = "sendCompact" /\ Len(q) < QCap
                  /\ q' = Append(q, "Compact") /\ wk' = [wk EXCEPT ![w] = "idle"]
                  /\ UNCHANGED <<sealed, tasks, big, nw, lock>>

Next == Write \/ \E w \in W : Recv(w) \/ Acquire(w) \/ SendFlush(w) \/ FlushDone(w) \/ SendCompact(w)
Spec == Init /\ [][Next]_vars
FairSpec == Spec /\ \A w \in W : WF_vars(Recv(w) \/ Acquire(w) \/ SendFlush(w) \/ FlushDone(w) \/ SendCompact(w))

\* background work never stops for ever: a sealed memtable is eventually flushed
SealedEventuallyFlushed == (sealed > 0) ~> (sealed = 0)
\* the same as a state predicate: no worker is blocked on a send that nobody can unblock
AllBlocked == /\ \A w \in W : wk[w] \in {"sendFlush", "sendCompact"}
              /\ Len(q) = QCap
NoSelfDeadlock == ~AllBlocked
\* C14 ("the write stall mechanisms always let writers proceed eventually"): no thread waits for
\* room in the queue while it holds the journal mutex - a writer's progress never depends on the
\* worker queue
NoSendUnderLock == \A w \in W : wk[w] \in {"sendFlush", "sendCompact"} => lock # w
\* ... in particular, when every worker is blocked on the full queue (12.3, O1), writers still
\* get the journal mutex
\* (a worker that waits for the mutex does not receive either)
NobodyReceives == /\ Len(q) = QCap
                  /\ \A w \in W : wk[w] \in {"sendFlush", "sendCompact", "needLockR", "needLockF"}
WritersNeverStuck == NobodyReceives => lock = 0
\* every queued flush task has its announcement under way: a Flush message in the queue, a worker
\* about to send it, or a worker that received it and is about to dequeue the task.  (A lost
\* announcement leaves a task - and its sealed memtable - behind for good: the keyspace reaches 4
\* sealed memtables and its writers stall for ever.)
RECURSIVE CountFlush(_)
CountFlush(s) == IF s = <<>> THEN 0 ELSE (IF Head(s) = "Flush" THEN 1 ELSE 0) + CountFlush(Tail(s))
TasksAnnounced == tasks <= CountFlush(q) + Cardinality({w \in W : wk[w] \in {"sendFlush", "needLockF"}})
=============================================================================
