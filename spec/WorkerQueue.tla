------------------------------ MODULE WorkerQueue ------------------------------
(***************************************************************************)
(* The worker pool's message protocol (src/worker_pool.rs worker_tick,     *)
(* src/keyspace/mod.rs request_rotation / inner_rotate_memtable): a        *)
(* bounded queue; writers request rotations with try_send (dropped when    *)
(* the queue is full); a worker that executes a RotateMemtable message     *)
(* seals the memtable, enqueues a flush task and then announces it with a  *)
(* BLOCKING send(Flush) into the same queue; a worker that finished a      *)
(* flush requests compactions with try_send; with more than one worker,    *)
(* worker 0 hands Compact messages back with a blocking send.  Writers     *)
(* stall while 4 sealed memtables are waiting.                             *)
(*                                                                         *)
(* Not one of the listed properties (C14 speaks about writers): the        *)
(* liveness question here is whether every sealed memtable is eventually   *)
(* flushed, i.e. whether background work can stop for ever.                *)
(***************************************************************************)
EXTENDS Naturals, Sequences, FiniteSets

CONSTANTS NWorkers, QCap, MaxWrites

VARIABLES q,        \* the queue: Seq of "Rotate" | "Flush" | "Compact"
          wk,       \* [1..NWorkers -> "idle" | "sendFlush" | "flushing" | "sendCompact"]
          sealed,   \* sealed memtables waiting for their flush
          tasks,    \* queued flush tasks
          big,      \* the active memtable is over its size limit (a rotation is due)
          nw        \* writes performed
vars == <<q, wk, sealed, tasks, big, nw>>
W == 1..NWorkers

Init == q = <<>> /\ wk = [w \in W |-> "idle"] /\ sealed = 0 /\ tasks = 0 /\ big = FALSE /\ nw = 0

\* a write: stalls while 4 sealed memtables wait; over the limit it requests a rotation
Write == /\ nw < MaxWrites /\ sealed < 4
         /\ nw' = nw + 1 /\ big' = TRUE
         /\ q' = IF Len(q) < QCap THEN Append(q, "Rotate") ELSE q      \* try_send
         /\ UNCHANGED <<wk, sealed, tasks>>

Recv(w) ==
    /\ wk[w] = "idle" /\ q # <<>>
    /\ LET m == Head(q) IN
       /\ q' = Tail(q)
       /\ CASE m = "Rotate" ->
                 \* stale request (memtable already rotated): nothing to do
                 IF big THEN /\ sealed' = sealed + 1 /\ tasks' = tasks + 1 /\ big' = FALSE
                             /\ wk' = [wk EXCEPT ![w] = "sendFlush"]
                        ELSE UNCHANGED <<sealed, tasks, big, wk>>
            [] m = "Flush" ->
                 IF tasks > 0 THEN /\ tasks' = tasks - 1 /\ wk' = [wk EXCEPT ![w] = "flushing"]
                                   /\ UNCHANGED <<sealed, big>>
                              ELSE UNCHANGED <<sealed, tasks, big, wk>>
            [] m = "Compact" ->
                 IF NWorkers > 1 /\ w = 1 THEN wk' = [wk EXCEPT ![w] = "sendCompact"] /\ UNCHANGED <<sealed, tasks, big>>
                                         ELSE UNCHANGED <<sealed, tasks, big, wk>>
    /\ UNCHANGED nw

\* blocking send(Flush) of the rotating worker
SendFlush(w) == /\ wk[w] = "sendFlush" /\ Len(q) < QCap
                /\ q' = Append(q, "Flush") /\ wk' = [wk EXCEPT ![w] = "idle"]
                /\ UNCHANGED <<sealed, tasks, big, nw>>
\* the flush is done: the sealed memtable is gone; compaction requests by try_send
FlushDone(w) == /\ wk[w] = "flushing"
                /\ sealed' = sealed - 1
                /\ q' = IF Len(q) < QCap THEN Append(q, "Compact") ELSE q
                /\ wk' = [wk EXCEPT ![w] = "idle"]
                /\ UNCHANGED <<tasks, big, nw>>
\* worker 0 hands a Compact message back (blocking send)
SendCompact(w) == /\ wk[w] = "sendCompact" /\ Len(q) < QCap
                  /\ q' = Append(q, "Compact") /\ wk' = [wk EXCEPT ![w] = "idle"]
                  /\ UNCHANGED <<sealed, tasks, big, nw>>

Next == Write \/ \E w \in W : Recv(w) \/ SendFlush(w) \/ FlushDone(w) \/ SendCompact(w)
Spec == Init /\ [][Next]_vars
FairSpec == Spec /\ \A w \in W : WF_vars(Recv(w) \/ SendFlush(w) \/ FlushDone(w) \/ SendCompact(w))

\* background work never stops for ever: a sealed memtable is eventually flushed
SealedEventuallyFlushed == (sealed > 0) ~> (sealed = 0)
\* the same as a state predicate: no worker is blocked on a send that nobody can unblock
AllBlocked == /\ \A w \in W : wk[w] \in {"sendFlush", "sendCompact"}
              /\ Len(q) = QCap
NoSelfDeadlock == ~AllBlocked
=============================================================================
