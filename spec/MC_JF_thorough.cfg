\* C03 / C15: <= 2 batches x <= 2 entries over 2 keys and 2 keyspaces
SPECIFICATION Spec
CONSTANTS
  Shapes <- ShapesThorough
  MaxBatches = 2
  Garbage <- GarbageVals
INVARIANTS TornTailAtomic AppendRecoverable DamageNeverReadAsData
CHECK_DEADLOCK FALSE
