SPECIFICATION TraceSpec
CONSTANTS
  Threads = {1, 2, 3, 4, 5, 6, 7, 8}
  MaxOps = 400
  Kinds = {"w", "c", "b"}
  ManualKs = FALSE
  ManualDb = FALSE
  PersistShortcut = FALSE
  SyncBatchSyncs = TRUE
  MaxFaults = 400
  EnPersistCall = TRUE
  FixPoisonAppend = TRUE
  ClearFlushes = TRUE
INVARIANTS FailStop MutualExclusion
CONSTRAINT TrackL
POSTCONDITION TraceAccepted
CHECK_DEADLOCK FALSE
