------------------------------ MODULE DbLifecycle ------------------------------
(***************************************************************************)
(* Lifecycle of a database directory: the version marker, the advisory     *)
(* lock on <dir>/lock shared by the DatabaseInner and every KeyspaceInner,  *)
(* user handles (Database / transactional database / Keyspace clones), the  *)
(* worker pool (thread counter, bounded message queue whose messages carry  *)
(* Keyspace clones), the steps of Drop for DatabaseInner, the field drop    *)
(* order of DatabaseInner and KeyspaceInner (supervisor before lock guard), *)
(* Drop for Journal (final SyncAll) when the last Supervisor clone goes,    *)
(* and unlock when the last lock guard clone goes.  Serves C17.             *)
(*                                                                         *)
(* One action per step of the code that another thread can observe:        *)
(*   open attempt: AttBegin (marker exists?) - AttLock (check_version /    *)
(*     create dirs + lock file, try_lock) - AttFinish (journal, marker,    *)
(*     instance constructed, workers started)                              *)
(*   Drop for DatabaseInner: DStop (stop signal + drain) - DLoopCheck / DSendClose*  *)
(*     (counter = 0 leaves the loop) - DDrain2 - DClear (flush tasks, keyspace   *)
(*     map, journal manager) - DRelSup - DRelRx - DRelLock (field order)   *)
(*   Drop for KeyspaceInner: KDrop - KRelSup - KRelLock (field order)      *)
(*   worker: WRecv - WDone / WFail - exit: WDec, WRel (order = ExitOrder)  *)
(***************************************************************************)
EXTENDS Naturals, Sequences, FiniteSets, TLC

CONSTANTS
    NWorkers,       \* size of the worker pool of every instance
    MaxAttempts,    \* open attempts (each successful one is an instance)
    MaxDb,          \* bound on live Database handles of an instance
    MaxKs,          \* bound on live user Keyspace handles of an instance
    MaxSends,       \* bound on messages sent through keyspace handles
    QCap,           \* capacity of the worker queue (1000 in the code)
    Markers,        \* marker classes the environment may install between instances
    ExitOrder,      \* "dec_first": the worker decrements the thread counter before it
                    \* releases its Supervisor clone; "rel_first": the other way round
    FailCounts,     \* TRUE: a worker that ends with Err decrements the thread counter
    WorkerMayFail,  \* TRUE: worker_tick may return Err
    AdoptGuard,     \* TRUE: a directory without marker that holds the meta keyspace is refused
    WeakMessager,   \* TRUE: keyspaces hold a weak sender (queued messages die with the DatabaseInner and its workers)
    CloseSend,      \* "blocking" | "try": how Drop for DatabaseInner sends Close messages
    DrainInLoop     \* TRUE: the close loop of Drop for DatabaseInner drains the queue on every turn

Inst == 1..MaxAttempts
Wk == 1..NWorkers
GoodMarkers == {"v3", "v3x"}          \* "FJL\x03", "FJL\x03" + trailing bytes
AllMarkers == {"none", "short", "badmagic", "v1", "v2", "v3", "v3x", "future"}

VARIABLES
    marker,     \* class of the version marker file ("none" = absent)
    files,      \* [db |-> directory, lock file, keyspaces folder exist, jnl0 |-> 0.jnl exists, meta |-> keyspaces/0 exists, ks |-> a user keyspace exists]
    flock,      \* instance / attempt holding the advisory lock, 0 = free
    att,        \* [Inst -> attempt record]
    I,          \* [Inst -> instance record]
    nsend,
    unsyncedOpen \* history: an open succeeded while journal bytes of an earlier instance were unsynced

vars == <<marker, files, flock, att, I, nsend, unsyncedOpen>>

NoAtt == [st |-> "none", path |-> "-", mods |-> 0, res |-> "-", m0 |-> "-"]
NoInst == [up |-> FALSE,         \* the instance was constructed
           alive |-> FALSE,      \* DatabaseInner exists
           db |-> 0, ksu |-> 0,  \* user handles
           ks |-> "none",        \* KeyspaceInner: "none" | "alive" | "drop" | "relsup" | "gone"
           ksmap |-> FALSE,      \* clone in supervisor.keyspaces
           kstask |-> 0,         \* clones held by queued flush tasks
           q |-> <<>>,           \* worker queue: "Flush" | "Compact" | "Rotate" | "Close"  (Compact / Rotate carry a Keyspace clone)
           rx |-> FALSE,         \* the DatabaseInner's receiver (and sender) exist
           wk |-> [w \in Wk |-> "none"],   \* "idle" | "busy" | "sending" (blocked in a send into the full queue) | "exit" (got Close) | "dec" | "rel" | "gone" | "failed"
           ctr |-> 0,
           dpc |-> 0,            \* Drop for DatabaseInner: 0 not started, 1 stop+drained / loop head, 11 inside send(Close), 2 loop left, 3 drained again, 4 cleared, 5 supervisor released, 6 receiver released, 7 lock released (done)
           supDb |-> FALSE, supKs |-> FALSE,
           lockDb |-> FALSE, lockKs |-> FALSE,
           journal |-> "none",   \* "open" | "dropped"
           dirty |-> FALSE]      \* journal bytes not yet synced to the device

\* ---------------------------------------------------------------------------------------
\* derived

Carries(m) == m \in {"Compact", "Rotate"}
QClones(i) == Cardinality({n \in 1..Len(I[i].q) : Carries(I[i].q[n])})
KsRefs(i) == I[i].ksu + (IF I[i].ksmap THEN 1 ELSE 0) + I[i].kstask + QClones(i)
             + Cardinality({w \in Wk : I[i].wk[w] \in {"busy", "sending"}})   \* a busy worker works on a task / message holding a clone
WorkerHoldsSup(i, w) == I[i].wk[w] \in {"idle", "busy", "sending", "exit", "dec"}
SupRefs(i) == (IF I[i].supDb THEN 1 ELSE 0) + (IF I[i].supKs THEN 1 ELSE 0)
              + Cardinality({w \in Wk : WorkerHoldsSup(i, w)})
LockRefs(i) == (IF I[i].lockDb THEN 1 ELSE 0) + (IF I[i].lockKs THEN 1 ELSE 0)
HasUserHandle(i) == I[i].db > 0 \/ I[i].ksu > 0
WorkersRunning(i) == {w \in Wk : I[i].wk[w] \in {"idle", "busy", "sending", "exit", "dec", "rel"}}
RxAlive(i) == I[i].rx \/ \E w \in Wk : WorkerHoldsSup(i, w)   \* every worker state holds a receiver (and sender) clone
\* with weak senders in the keyspaces, the channel (and every message still queued) is dropped
\* together with its last strong handle
ChanAfter(r) == IF WeakMessager /\ ~(r.rx \/ \E w \in Wk : r.wk[w] \in {"idle", "busy", "sending", "exit", "dec"})
                THEN [r EXCEPT !.q = <<>>] ELSE r
NoAttemptInFlight == \A a \in Inst : att[a].st \in {"none", "done"}

\* releasing a Supervisor clone: the last one drops the Journal (final flush + SyncAll)
JournalAfter(i, refsAfter, r) ==
    IF refsAfter = 0 /\ r.journal = "open" THEN [r EXCEPT !.journal = "dropped", !.dirty = FALSE] ELSE r

Init ==
    /\ marker = "none" /\ files = [db |-> FALSE, jnl0 |-> FALSE, meta |-> FALSE, ks |-> FALSE]
    /\ flock = 0
    /\ att = [a \in Inst |-> NoAtt]
    /\ I = [i \in Inst |-> NoInst]
    /\ nsend = 0
    /\ unsyncedOpen = FALSE

\* ---------------------------------------------------------------------------------------
\* the environment replaces the marker file while nothing is open (C17, second sentence)
SetMarker(m) ==
    /\ files.db /\ flock = 0 /\ NoAttemptInFlight
    /\ \A i \in Inst : ~HasUserHandle(i)
    /\ m \in Markers /\ m # marker
    /\ marker' = m
    /\ UNCHANGED <<files, flock, att, I, nsend, unsyncedOpen>>

\* ---------------------------------------------------------------------------------------
\* open attempts (Database::create_or_recover)

NextAtt == CHOOSE a \in Inst : att[a].st = "none" /\ \A b \in Inst : b < a => att[b].st # "none"

AttBegin ==
    /\ \E a \in Inst : att[a].st = "none"
    /\ LET a == NextAtt IN
       att' = [att EXCEPT ![a] = [st |-> "begun", path |-> IF marker = "none" THEN "create" ELSE "recover",
                                  mods |-> 0, m0 |-> marker, res |-> "-"]]
    /\ UNCHANGED <<marker, files, flock, I, nsend, unsyncedOpen>>

Refuse(a, why, m) == att' = [att EXCEPT ![a].st = "done", ![a].res = why, ![a].mods = m]

\* recover: check_version, then LockedFileGuard::try_acquire
\* create : create_dir_all, LockedFileGuard::create_new (creates the lock file if missing), try_lock
AttLock(a) ==
    /\ att[a].st = "begun"
    /\ IF att[a].path = "recover"
       THEN IF marker \notin GoodMarkers
            THEN Refuse(a, "invalid_version", att[a].mods) /\ UNCHANGED <<flock, files>>
            ELSE IF flock # 0
                 THEN Refuse(a, "locked", att[a].mods) /\ UNCHANGED <<flock, files>>
                 ELSE /\ flock' = a /\ att' = [att EXCEPT ![a].st = "locked"] /\ UNCHANGED files
       ELSE \* creation path: the directory and the lock file are created if they are missing
            LET m == att[a].mods + (IF files.db THEN 0 ELSE 1) IN
            /\ files' = [files EXCEPT !.db = TRUE]
            /\ IF flock # 0
               THEN Refuse(a, "locked", m) /\ UNCHANGED flock
               ELSE flock' = a /\ att' = [att EXCEPT ![a].st = "locked", ![a].mods = m]
    /\ UNCHANGED <<marker, I, nsend, unsyncedOpen>>

NewInst == [NoInst EXCEPT !.up = TRUE, !.alive = TRUE, !.db = 1, !.rx = TRUE,
                          !.wk = [w \in Wk |-> "idle"], !.ctr = NWorkers,
                          !.supDb = TRUE, !.lockDb = TRUE, !.journal = "open"]

\* recovery re-creates the handle of an existing keyspace inside supervisor.keyspaces
RecoveredInst == [NewInst EXCEPT !.ks = "alive", !.ksmap = TRUE, !.supKs = TRUE, !.lockKs = TRUE]

OthersUnsynced(a) == \E j \in Inst : j # a /\ I[j].up /\ (I[j].dirty \/ I[j].journal = "open")

\* recover: journals recovered, instance constructed, workers started
\* create : Journal::create_new("0.jnl") (fails if it exists: the lock guard is dropped again),
\*          version marker written and synced, instance constructed, workers started
AttFinish(a) ==
    /\ att[a].st = "locked"
    /\ IF att[a].path = "create" /\ AdoptGuard /\ (files.meta \/ marker # "none")
       THEN \* with the lock held: this is an existing database after all (its marker is missing,
            \* or another creator finished in between) - refused, the lock guard is dropped again
            /\ Refuse(a, "invalid_version", att[a].mods) /\ flock' = 0
            /\ UNCHANGED <<marker, files, I, unsyncedOpen>>
       \* (a 0.jnl without marker and without meta keyspace is the leftover of a creation that
       \* crashed: it is removed and creation starts over - fix 6b76038; before, creation failed)
       ELSE IF att[a].path = "create" /\ files.jnl0 /\ ~AdoptGuard
       THEN /\ Refuse(a, "io_error", att[a].mods) /\ flock' = 0
            /\ UNCHANGED <<marker, files, I, unsyncedOpen>>
       ELSE /\ att' = [att EXCEPT ![a].st = "done", ![a].res = "ok",
                                  ![a].mods = @ + (IF att[a].path = "create" THEN 1 ELSE 0)]
            /\ marker' = IF att[a].path = "create" THEN "v3" ELSE marker
            /\ files' = [files EXCEPT !.jnl0 = IF att[a].path = "create" THEN TRUE ELSE @, !.meta = TRUE]
            /\ I' = [I EXCEPT ![a] = IF att[a].path = "recover" /\ files.ks THEN RecoveredInst ELSE NewInst]
            /\ unsyncedOpen' = (unsyncedOpen \/ OthersUnsynced(a))
            /\ UNCHANGED flock
    /\ UNCHANGED nsend

\* ---------------------------------------------------------------------------------------
\* user handles

CloneDb(i) == /\ I[i].db > 0 /\ I[i].db < MaxDb
              /\ I' = [I EXCEPT ![i].db = @ + 1]
              /\ UNCHANGED <<marker, files, flock, att, nsend, unsyncedOpen>>

DropDb(i) == /\ I[i].db > 0
             /\ I' = [I EXCEPT ![i].db = @ - 1]
             /\ UNCHANGED <<marker, files, flock, att, nsend, unsyncedOpen>>

\* Database::keyspace: creates the keyspace (KeyspaceInner holds clones of the supervisor and of
\* the lock guard; a clone goes into supervisor.keyspaces) or clones the existing handle
OpenKs(i) ==
    /\ I[i].db > 0 /\ I[i].ksu < MaxKs
    /\ IF I[i].ks = "none"
       THEN /\ I' = [I EXCEPT ![i].ks = "alive", ![i].ksmap = TRUE, ![i].ksu = 1,
                              ![i].supKs = TRUE, ![i].lockKs = TRUE]
            /\ files' = [files EXCEPT !.ks = TRUE]
       ELSE /\ I[i].ksmap    \* handed out from the map
            /\ I' = [I EXCEPT ![i].ksu = @ + 1]
            /\ UNCHANGED files
    /\ UNCHANGED <<marker, flock, att, nsend, unsyncedOpen>>

CloneKs(i) == /\ I[i].ksu > 0 /\ I[i].ksu < MaxKs
              /\ I' = [I EXCEPT ![i].ksu = @ + 1]
              /\ UNCHANGED <<marker, files, flock, att, nsend, unsyncedOpen>>

DropKs(i) == /\ I[i].ksu > 0
             /\ I' = [I EXCEPT ![i].ksu = @ - 1]
             /\ UNCHANGED <<marker, files, flock, att, nsend, unsyncedOpen>>

\* a write through any handle leaves journal bytes that are not yet synced
Write(i) == /\ HasUserHandle(i) /\ I[i].journal = "open" /\ ~I[i].dirty
            /\ I' = [I EXCEPT ![i].dirty = TRUE]
            /\ UNCHANGED <<marker, files, flock, att, nsend, unsyncedOpen>>

\* Database::persist(SyncAll)
Sync(i) == /\ I[i].db > 0 /\ I[i].dirty
           /\ I' = [I EXCEPT ![i].dirty = FALSE]
           /\ UNCHANGED <<marker, files, flock, att, nsend, unsyncedOpen>>

\* the journal was rotated and 0.jnl evicted (the active journal now has another number)
EvictJnl0(i) == /\ I[i].alive /\ I[i].dpc = 0 /\ files.jnl0
                /\ files' = [files EXCEPT !.jnl0 = FALSE]
                /\ UNCHANGED <<marker, flock, att, I, nsend, unsyncedOpen>>

\* a message sent through a keyspace handle (Ingestion::finish: try_send(Compact(clone));
\* request_rotation: try_send(RotateMemtable(clone, id))); dropped if the queue is full or the
\* receiver is gone
KsSend(i, m) ==
    /\ I[i].ksu > 0 /\ nsend < MaxSends
    /\ nsend' = nsend + 1
    /\ IF RxAlive(i) /\ Len(I[i].q) < QCap
       THEN I' = [I EXCEPT ![i].q = Append(@, m)]
       ELSE UNCHANGED I
    /\ UNCHANGED <<marker, files, flock, att, unsyncedOpen>>

\* ---------------------------------------------------------------------------------------
\* workers

\* flume: a sender blocked on the full queue is admitted (its message enters the queue, it wakes
\* up) by the next operation of a receiver that finds room - recv does, drain does ONLY if there
\* is room BEFORE it empties the queue
Admit(r) ==
    IF Len(r.q) < QCap /\ \E w \in Wk : r.wk[w] = "sending"
    THEN LET w == CHOOSE w \in Wk : r.wk[w] = "sending" IN
         [r EXCEPT !.q = Append(@, "Flush"), !.wk[w] = "idle"]
    ELSE r
\* Receiver::drain
Drained(r) == [Admit(r) EXCEPT !.q = <<>>]

WRecv(i, w) ==
    /\ I[i].wk[w] = "idle" /\ I[i].q # <<>>
    /\ LET m == Head(I[i].q)
           r1 == [I[i] EXCEPT !.q = Tail(@),
                              !.wk[w] = IF m = "Close" THEN "exit" ELSE "busy",
                              \* a Flush message takes a flush task (if any) with it
                              !.kstask = IF m = "Flush" /\ @ > 0 THEN @ - 1 ELSE @]
       IN I' = [I EXCEPT ![i] = Admit(r1)]
    /\ UNCHANGED <<marker, files, flock, att, nsend, unsyncedOpen>>

\* the message is done (the clone it carried is dropped); a finished flush requests compactions
\* with try_send; a finished rotation announces its flush task with a BLOCKING send(Flush)
WDone(i, w, requeue) ==
    /\ I[i].wk[w] = "busy"
    /\ I' = [I EXCEPT ![i].wk[w] = "idle",
                      ![i].q = IF requeue /\ Len(@) < QCap THEN Append(@, "Compact") ELSE @]
    /\ UNCHANGED <<marker, files, flock, att, nsend, unsyncedOpen>>
WDoneRotation(i, w) ==
    /\ I[i].wk[w] = "busy"
    /\ IF Len(I[i].q) < QCap
       THEN I' = [I EXCEPT ![i].wk[w] = "idle", ![i].q = Append(@, "Flush"), ![i].kstask = @ + 1]
       ELSE I' = [I EXCEPT ![i].wk[w] = "sending", ![i].kstask = @ + 1]
    /\ UNCHANGED <<marker, files, flock, att, nsend, unsyncedOpen>>

\* worker_tick returned Err: the database is poisoned, the thread ends (its state is dropped)
WFail(i, w) ==
    /\ WorkerMayFail /\ I[i].wk[w] = "busy"
    /\ LET r1 == [I[i] EXCEPT !.wk[w] = "failed", !.ctr = IF FailCounts THEN @ - 1 ELSE @] IN
       I' = [I EXCEPT ![i] = ChanAfter(JournalAfter(i, SupRefs(i) - 1, r1))]
    /\ UNCHANGED <<marker, files, flock, att, nsend, unsyncedOpen>>

\* exit after Close: decrement the thread counter / release the Supervisor clone
WDec(i, w) ==
    /\ \/ ExitOrder = "dec_first" /\ I[i].wk[w] = "exit"
       \/ ExitOrder = "rel_first" /\ I[i].wk[w] = "rel"
    /\ I' = [I EXCEPT ![i].ctr = @ - 1,
                      ![i].wk[w] = IF ExitOrder = "dec_first" THEN "dec" ELSE "gone"]
    /\ UNCHANGED <<marker, files, flock, att, nsend, unsyncedOpen>>

WRel(i, w) ==
    /\ \/ ExitOrder = "dec_first" /\ I[i].wk[w] = "dec"
       \/ ExitOrder = "rel_first" /\ I[i].wk[w] = "exit"
    /\ LET r1 == [I[i] EXCEPT !.wk[w] = IF ExitOrder = "dec_first" THEN "gone" ELSE "rel"] IN
       I' = [I EXCEPT ![i] = ChanAfter(JournalAfter(i, SupRefs(i) - 1, r1))]
    /\ UNCHANGED <<marker, files, flock, att, nsend, unsyncedOpen>>

\* ---------------------------------------------------------------------------------------
\* Drop for DatabaseInner (runs on the thread that dropped the last Database handle)

DStop(i) ==    \* stop signal, drain the queue
    /\ I[i].alive /\ I[i].db = 0 /\ I[i].dpc = 0
    /\ I' = [I EXCEPT ![i] = [Drained(I[i]) EXCEPT !.dpc = 1]]
    /\ UNCHANGED <<marker, files, flock, att, nsend, unsyncedOpen>>

\* while counter > 0 { send(Close); sleep }: the check of the counter ...
DLoopCheck(i) ==
    /\ I[i].dpc = 1
    /\ I' = [I EXCEPT ![i].dpc = IF I[i].ctr = 0 THEN 2 ELSE 11]
    /\ UNCHANGED <<marker, files, flock, att, nsend, unsyncedOpen>>

\* ... and the send: a blocking send waits for room in the bounded queue, try_send gives up
DSendClose(i) ==
    /\ I[i].dpc = 11
    /\ CloseSend = "blocking" => Len(I[i].q) < QCap
    /\ LET r0 == IF DrainInLoop THEN Drained(I[i]) ELSE I[i] IN
       I' = [I EXCEPT ![i] = [r0 EXCEPT !.dpc = 1, !.q = IF Len(@) < QCap THEN Append(@, "Close") ELSE @]]
    /\ UNCHANGED <<marker, files, flock, att, nsend, unsyncedOpen>>

DDrain2(i) ==
    /\ I[i].dpc = 2
    /\ I' = [I EXCEPT ![i] = [Drained(I[i]) EXCEPT !.dpc = 3]]
    /\ UNCHANGED <<marker, files, flock, att, nsend, unsyncedOpen>>

DClear(i) ==   \* break the cycles: flush tasks, keyspace map, journal manager
    /\ I[i].dpc = 3
    /\ I' = [I EXCEPT ![i].dpc = 4, ![i].kstask = 0, ![i].ksmap = FALSE]
    /\ UNCHANGED <<marker, files, flock, att, nsend, unsyncedOpen>>

DRelSup(i) ==
    /\ I[i].dpc = 4
    /\ LET r1 == [I[i] EXCEPT !.dpc = 5, !.supDb = FALSE] IN
       I' = [I EXCEPT ![i] = JournalAfter(i, SupRefs(i) - 1, r1)]
    /\ UNCHANGED <<marker, files, flock, att, nsend, unsyncedOpen>>

DRelRx(i) ==   \* the worker pool's receiver and sender go; queued messages stay in the channel
    /\ I[i].dpc = 5
    /\ I' = [I EXCEPT ![i] = ChanAfter([I[i] EXCEPT !.dpc = 6, !.rx = FALSE])]
    /\ UNCHANGED <<marker, files, flock, att, nsend, unsyncedOpen>>

DRelLock(i) ==
    /\ I[i].dpc = 6
    /\ I' = [I EXCEPT ![i].dpc = 7, ![i].lockDb = FALSE, ![i].alive = FALSE]
    /\ flock' = IF LockRefs(i) = 1 THEN 0 ELSE flock
    /\ UNCHANGED <<marker, files, att, nsend, unsyncedOpen>>

\* ---------------------------------------------------------------------------------------
\* Drop for KeyspaceInner (runs on whichever thread dropped the last clone)

KDrop(i) ==
    /\ I[i].ks = "alive" /\ KsRefs(i) = 0
    /\ I' = [I EXCEPT ![i].ks = "drop"]
    /\ UNCHANGED <<marker, files, flock, att, nsend, unsyncedOpen>>

KRelSup(i) ==
    /\ I[i].ks = "drop"
    /\ LET r1 == [I[i] EXCEPT !.ks = "relsup", !.supKs = FALSE] IN
       I' = [I EXCEPT ![i] = JournalAfter(i, SupRefs(i) - 1, r1)]
    /\ UNCHANGED <<marker, files, flock, att, nsend, unsyncedOpen>>

KRelLock(i) ==
    /\ I[i].ks = "relsup"
    /\ I' = [I EXCEPT ![i].ks = "gone", ![i].lockKs = FALSE]
    /\ flock' = IF LockRefs(i) = 1 THEN 0 ELSE flock
    /\ UNCHANGED <<marker, files, att, nsend, unsyncedOpen>>

\* ---------------------------------------------------------------------------------------

Internal(i) ==
    \/ \E w \in Wk : WRecv(i, w) \/ WDone(i, w, TRUE) \/ WDone(i, w, FALSE) \/ WDoneRotation(i, w) \/ WFail(i, w) \/ WDec(i, w) \/ WRel(i, w)
    \/ DStop(i) \/ DLoopCheck(i) \/ DSendClose(i) \/ DDrain2(i) \/ DClear(i) \/ DRelSup(i) \/ DRelRx(i) \/ DRelLock(i)
    \/ KDrop(i) \/ KRelSup(i) \/ KRelLock(i)

Client(i) ==
    \/ CloneDb(i) \/ DropDb(i) \/ OpenKs(i) \/ CloneKs(i) \/ DropKs(i) \/ Write(i) \/ Sync(i) \/ EvictJnl0(i)
    \/ KsSend(i, "Compact") \/ KsSend(i, "Rotate")

Next ==
    \/ AttBegin \/ \E a \in Inst : AttLock(a) \/ AttFinish(a)
    \/ \E m \in Markers : SetMarker(m)
    \/ \E i \in Inst : Client(i) \/ Internal(i)

Spec == Init /\ [][Next]_vars

\* fairness: threads keep running (drops complete, workers take messages and finish them)
Fair ==
    /\ \A i \in Inst : WF_vars(DStop(i) \/ DLoopCheck(i) \/ DSendClose(i) \/ DDrain2(i) \/ DClear(i) \/ DRelSup(i) \/ DRelRx(i) \/ DRelLock(i))
    /\ \A i \in Inst : WF_vars(KDrop(i) \/ KRelSup(i) \/ KRelLock(i))
    /\ \A i \in Inst : \A w \in Wk : WF_vars(WRecv(i, w) \/ WDone(i, w, FALSE) \/ WDec(i, w) \/ WRel(i, w))
FairSpec == Spec /\ Fair

\* ---------------------------------------------------------------------------------------
\* properties (C17)

\* while any handle of an instance is alive, that instance holds the lock (so no second open succeeds)
HandleImpliesLock == \A i \in Inst : HasUserHandle(i) => flock = i
AtMostOneInstance == Cardinality({i \in Inst : HasUserHandle(i)}) <= 1

\* a refused open changed nothing on disk
RefusedChangesNothing == \A a \in Inst : (att[a].st = "done" /\ att[a].res # "ok") => att[a].mods = 0

\* only compatible directories open; an existing database directory without marker is not adopted
IncompatibleRefused ==
    \A a \in Inst : (att[a].st = "done" /\ att[a].res = "ok") => att[a].m0 \in GoodMarkers \/ att[a].path = "create"
AbsentMarkerRefused ==
    \A a \in Inst : (att[a].st = "done" /\ att[a].res = "ok" /\ att[a].path = "create") => a = 1 \/ ~(\E b \in Inst : b < a /\ att[b].res = "ok")

\* the lock of an instance is released only after its journal has been synced and dropped
UnlockAfterSync == \A i \in Inst : (I[i].up /\ flock # i) => (I[i].journal = "dropped" /\ ~I[i].dirty)
NoUnsyncedOpen == ~unsyncedOpen

\* when Drop for DatabaseInner has returned, no worker thread of the instance is left
DropReturnedWorkersGone == \A i \in Inst : I[i].dpc = 7 => WorkersRunning(i) = {}

\* after the last handle is gone and every drop has run to completion, the lock is free
Settled(i) == ~HasUserHandle(i) /\ ~ENABLED Internal(i)
SettledUnlocked == \A i \in Inst : (I[i].up /\ Settled(i)) => (flock # i /\ I[i].journal = "dropped" /\ WorkersRunning(i) = {})

\* liveness: dropping the last handle leads to a free lock
Quiesces == \A i \in Inst : [](I[i].up /\ ~HasUserHandle(i) => <>(HasUserHandle(i) \/ flock # i))
NoHandleStable(i) == I[i].up /\ ~HasUserHandle(i)
DropTerminates == \A i \in Inst : (NoHandleStable(i) ~> (flock # i))

\* ---------------------------------------------------------------------------------------
\* signatures of known findings

\* D20 (fixed): a message carrying a Keyspace clone entered the queue after the final drain of
\* Drop for DatabaseInner; it is never consumed, the KeyspaceInner (lock, journal) leaks
StrandedMessage(i) == ~RxAlive(i) /\ QClones(i) > 0
NoFinding_Stranded == \A i \in Inst : ~StrandedMessage(i)
\* D21 (fixed): an existing database directory whose marker is absent and whose 0.jnl was evicted is adopted
NoFinding_Adopted == AbsentMarkerRefused

StateBound == \A i \in Inst : Len(I[i].q) <= QCap
=============================================================================
