----------------------------- MODULE Store_Trace -----------------------------
(* Evaluates FjallStore along a logged sequence of actions (NDJSON, one      *)
(* action record per line; "Reset" starts a new behaviour) and prints the     *)
(* model state after every action.  Used in both directions: behaviours       *)
(* chosen by TLC's simulator are expanded into per-step expectations for the  *)
(* replay harness, and action sequences recorded from randomized drivers of   *)
(* the implementation are validated (an action the specification does not     *)
(* allow at that point stops the trace; every invariant of the module is      *)
(* evaluated in every state of the trace).                                    *)
EXTENDS MC_Store, IOUtils

TraceRecs == ndJsonDeserialize(IOEnv.TRACE)

VARIABLE l

Ev == TraceRecs[l]
Has(f) == f \in DOMAIN Ev
ToSet(s) == {s[i] : i \in 1..Len(s)}

ResetAll ==
    /\ seqno' = 0 /\ visible' = 0 /\ nextId' = 1
    /\ kmap' = [n \in Names |-> 0]
    /\ meta' = {} /\ dirs' = {}
    /\ lsm' = [i \in Ids |-> EmptyLsm]
    /\ old' = [i \in Ids |-> <<>>]
    /\ zombie' = {} /\ held' = {}
    /\ journals' = <<[jid |-> 0, recs |-> <<>>]>>
    /\ jmgr' = <<>> /\ flushq' = <<>>
    /\ views' = {} /\ trk' = [data |-> {}, wm |-> 0]
    /\ filt' = [i \in Ids |-> FALSE]
    /\ ref' = [n \in Names |-> NoRef]
    /\ frozen' = <<>>
    /\ taint' = {} /\ kf' = {} /\ everDel' = {} /\ ing' = [i \in Ids |-> 0] /\ mtaint' = {}
    /\ nops' = 0 /\ nreopen' = 0 /\ nmaint' = 0 /\ nviews' = 0
    /\ last' = [a |-> "Init"]

TraceInit == Init /\ l = 1

TraceNext ==
    /\ l <= Len(TraceRecs)
    /\ l' = l + 1
    /\ \/ Ev.a = "Reset"  /\ ResetAll
       \/ Ev.a = "Create" /\ CreateKeyspace(Ev.name)
       \/ Ev.a = "Delete" /\ DeleteKeyspace(Ev.name, Ev.keep)
       \/ Ev.a = "DropHandle" /\ DropHandle(Ev.id)
       \/ Ev.a = "Insert" /\ Write(Ev.name, Ev.k, FALSE)
       \/ Ev.a = "Remove" /\ Write(Ev.name, Ev.k, TRUE)
       \/ Ev.a = "Batch"  /\ BatchCommit(Ev.items[1].name, Ev.items[1].k, Ev.items[1].del,
                                         Ev.items[2].name, Ev.items[2].k, Ev.items[2].del,
                                         IF Has("dur") THEN Ev.dur ELSE "none")
       \/ Ev.a = "StaleBatch" /\ StaleBatch(Ev.id, Ev.k, Ev.del, Ev.item.name, Ev.item.k, Ev.item.del)
       \/ Ev.a = "Clear"  /\ Clear(Ev.name)
       \/ Ev.a = "Ingest" /\ Ingest(Ev.name, ToSet(Ev.keys), ToSet(Ev.tombs))
       \/ Ev.a = "Rotate" /\ Rotate(Ev.name)
       \/ Ev.a = "Flush"  /\ WorkerFlush(Ev.jrot) /\ (Has("id") => Head(flushq) = Ev.id)
       \/ Ev.a = "Compact" /\ \E i, j \in 1..4 :
                                 /\ Compact(Ev.name, i, j)
                                 /\ (Has("i") => (i = Ev.i /\ j = Ev.j))
                                 \* a compaction logged without run indices: major = all runs,
                                 \* otherwise the model merges the two newest runs (the real
                                 \* strategy's choice is not observable and does not matter)
                                 /\ (~Has("i") =>
                                       LET n == Len(lsm[kmap[Ev.name]].rn) IN
                                       IF Ev.major THEN i = 1 /\ j = n
                                       ELSE i = 1 /\ j = (IF n >= 2 THEN 2 ELSE 1))
       \/ Ev.a = "Persist" /\ Persist(Ev.mode)
       \/ Ev.a = "OpenView" /\ OpenView
       \/ Ev.a = "CloseView" /\ \E w \in views : w.vid = Ev.vid /\ CloseView(w)
       \/ Ev.a = "GC" /\ TrackerGC
       \/ Ev.a = "Reopen" /\ CloseReopen /\ (Has("fq") => flushq' = Ev.fq)

TraceSpec == TraceInit /\ [][TraceNext]_<<vars, l>>

\* one line per state of the trace: index of the consumed event, action label, projection
ExportStep ==
    PrintT(<<"STEP", ToJson([lvl |-> l, act |-> last, st |-> Projection])>>)

TraceView == <<View, l>>
=============================================================================
