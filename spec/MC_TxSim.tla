------------------------------ MODULE MC_TxSim ------------------------------
(* FjallTx under TLC's simulator / exhaustive export: the action history (with the results the
   implementation must show) is carried along and printed as one behaviour per line. *)
EXTENDS FjallTx, Json
CONSTANT SimDepth
VARIABLE hist,
         msel   \* the range shapes this behaviour reads with: at most two of the enabled ones, so that the
                \* share of reads among a behaviour's steps does not grow with the number of shapes
RangeSel == LET R == Methods \cap RangeMethods IN
            IF Cardinality(R) <= 2 THEN {R} ELSE {S \in SUBSET R : Cardinality(S) = 2}
SimInit == Init /\ hist = <<>> /\ msel \in RangeSel
SimNext == /\ Next /\ hist' = Append(hist, last') /\ UNCHANGED msel
           /\ (last'.a = "Read" /\ last'.m \in RangeMethods) => last'.m \in msel
SimSpec == SimInit /\ [][SimNext]_<<vars, hist, msel>>
AllDone == \A t \in Txs : tx[t].st \notin {"idle", "open"}
ExportHist == (TLCGet("level") = SimDepth \/ AllDone) => PrintT(<<"BEHAVIOUR", ToJson(hist)>>)
TxView == <<seqno, visible, ents, tx, table, trk, writer, nval, commits, allc, bad>>
=============================================================================
