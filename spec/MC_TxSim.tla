------------------------------ MODULE MC_TxSim ------------------------------
(* FjallTx under TLC's simulator / exhaustive export: the action history (with the results the
   implementation must show) is carried along and printed as one behaviour per line. *)
EXTENDS FjallTx, Json
CONSTANT SimDepth
VARIABLE hist
SimInit == Init /\ hist = <<>>
SimNext == Next /\ hist' = Append(hist, last')
SimSpec == SimInit /\ [][SimNext]_<<vars, hist>>
AllDone == \A t \in Txs : tx[t].st \notin {"idle", "open"}
ExportHist == (TLCGet("level") = SimDepth \/ AllDone) => PrintT(<<"BEHAVIOUR", ToJson(hist)>>)
TxView == <<seqno, visible, ents, tx, table, trk, writer, nval, commits, allc, bad>>
=============================================================================
