\* background work never stops for ever (1 worker, queue capacity 2 standing in for 1000)
SPECIFICATION FairSpec
CONSTANTS
  NWorkers = 1
  QCap = 2
  MaxWrites = 6
  SendUnderLock = FALSE
  FlushTrySend = FALSE
  InlineFlush = TRUE
INVARIANT NoSelfDeadlock
PROPERTY SealedEventuallyFlushed
CHECK_DEADLOCK FALSE
