\* observation beyond the listed properties: can background work stop for ever? (1 worker, queue capacity 2 standing in for 1000)
SPECIFICATION FairSpec
CONSTANTS
  NWorkers = 1
  QCap = 2
  MaxWrites = 6
  SendUnderLock = FALSE
  FlushTrySend = FALSE
INVARIANT NoSelfDeadlock
PROPERTY SealedEventuallyFlushed
CHECK_DEADLOCK FALSE
