\* the same without version upgrades: the invariants hold without any waiver
SPECIFICATION Spec
CONSTANTS
  Threads = {1, 2}
  Cells <- CellsMC
  Programs <- ProgramsMC
  MaxUpgrades = 0
  MaxViews = 2
INVARIANTS NoTornBatch ViewsFrozen InflightAboveVisible MutualExclusion
CHECK_DEADLOCK FALSE
