\* C10: journal rotation, watermarks, eviction; keyspaces flushed at different times (2 names, 1 key, 4 ops incl. clear, 6 maintenance steps, 1 reopen)
SPECIFICATION Spec
CONSTANTS
  Keys = {1}
  Names = {"a", "b"}
  MaxId = 2
  MaxOps = 4
  MaxReopen = 1
  MaxMaint = 6
  MaxViews = 0
  EnBatch = FALSE
  EnClear = TRUE
  EnIngest = FALSE
  EnKs = FALSE
  EnJRot = TRUE
  EnViews = FALSE
  EnCompact = FALSE
  EnPersist = FALSE
  EnRemove = FALSE
  FilterNames = {}
  FixCovered = TRUE
  FixSeqno = TRUE
  FixIdSeed = TRUE
  FixMetaSeqno = TRUE
  FixTrkZero = TRUE
VIEW View
CONSTRAINT Bounded
INVARIANTS PointEqScan ViewEqRef SeqnoAboveEntries SeqnoAboveJournal JournalsConsistent CrashSafe RecoveryNeverPanics DurableMatchesMemory AllFlushedOneJournal
CHECK_DEADLOCK FALSE
