---------------------------- MODULE Journal_Trace ----------------------------
(* Validates traces of the writers' critical sections recorded from the real  *)
(* code (hooks emit one event per statement group, under the journal mutex)   *)
(* against FjallJournal: every event must be a step the specification allows  *)
(* in its current state (e.g. no WDraw while poisoned), and the invariants     *)
(* (FailStop, MutualExclusion) are evaluated in every state of the trace.      *)
EXTENDS FjallJournal, Json, IOUtils

TraceRecs == ndJsonDeserialize(IOEnv.TRACE)
VARIABLES l, pend   \* pend: threads with a Database::persist call in flight
Ev == TraceRecs[l]

KindOf(k) == IF k = "clear" THEN "c" ELSE IF k = "batch" THEN "b" ELSE "w"

ResetAll ==
    /\ lock' = 99 /\ pc' = [t \in Threads |-> "idle"] /\ cur' = [t \in Threads |-> 0]
    /\ nops' = 0 /\ kind' = [i \in Ops |-> "w"] /\ frame' = [i \in Ops |-> "none"]
    /\ nOs' = 0 /\ osPart' = FALSE /\ nSync' = 0 /\ syncPart' = FALSE
    /\ ack' = [i \in Ops |-> "none"] /\ applied' = {} /\ poisoned' = FALSE
    /\ ioFailed' = FALSE /\ ackedAtFail' = {} /\ badAck' = FALSE /\ faults' = 0
    /\ pmode' = "" /\ pSnap' = {} /\ durable' = {} /\ bufdurable' = {}
    /\ phase' = "run" /\ rec' = {}

\* compositions written out (TLC's action composition operator is incomplete)
LockDraw(t, k) ==
    /\ Running /\ pc[t] = "idle" /\ lock = Free /\ nops < MaxOps /\ ~poisoned /\ k \in Kinds
    /\ lock' = t
    /\ nops' = nops + 1
    /\ cur' = [cur EXCEPT ![t] = nops + 1]
    /\ kind' = [kind EXCEPT ![nops + 1] = k]
    /\ pc' = [pc EXCEPT ![t] = "drawn"]
    /\ UNCHANGED <<frame, nOs, osPart, nSync, syncPart, ack, applied, poisoned, ioFailed,
                   ackedAtFail, badAck, faults, pmode, pSnap, durable, bufdurable, phase, rec>>
LockRefused(t) ==
    /\ Running /\ pc[t] = "idle" /\ lock = Free /\ poisoned
    /\ UNCHANGED vars
PersistOk ==
    /\ Running /\ pmode = ""
    /\ nOs' = NApp /\ osPart' = FALSE /\ nSync' = NApp /\ syncPart' = FALSE
    /\ bufdurable' = bufdurable \cup {i \in Ops : ack[i] = "ok"}
    /\ durable' = durable \cup {i \in Ops : ack[i] = "ok"}
    /\ UNCHANGED <<lock, pc, cur, nops, kind, frame, ack, applied, poisoned, ioFailed,
                   ackedAtFail, badAck, faults, pmode, pSnap, phase, rec>>
PersistFail ==
    /\ Running /\ lock = Free /\ pmode = "" /\ ~poisoned
    /\ poisoned' = TRUE /\ ioFailed' = TRUE /\ faults' = faults + 1
    /\ ackedAtFail' = IF ioFailed THEN ackedAtFail ELSE {j \in Ops : ack[j] = "ok"}
    /\ UNCHANGED <<lock, pc, cur, nops, kind, frame, nOs, osPart, nSync, syncPart, ack, applied,
                   badAck, pmode, pSnap, durable, bufdurable, phase, rec>>

\* the mutex acquisition is not logged: it is the forced silent step before a thread's first
\* event of a critical section
TraceInit == Init /\ l = 1 /\ pend = {} /\ TLCSet(1, 1)

Step(A) == l <= Len(TraceRecs) /\ A /\ l' = l + 1 /\ pend' = pend
StepP(A, P) == l <= Len(TraceRecs) /\ A /\ l' = l + 1 /\ pend' = P

TraceNext ==
    \/ StepP(Ev.ev = "Reset" /\ ResetAll, {})
    \/ Step(Ev.ev = "WRefused" /\ LockRefused(Ev.t))
    \/ Step(Ev.ev = "WDraw" /\ LockDraw(Ev.t, KindOf(Ev.kind)))
    \/ Step(Ev.ev = "WJournal" /\ AppendOk(Ev.t))
    \/ Step(Ev.ev = "WErrAppend" /\ AppendFail(Ev.t))
    \/ Step(Ev.ev = "WPersisted" /\ FlushOk(Ev.t))
    \/ Step(Ev.ev = "WErrPersist" /\ FlushFail(Ev.t))
    \/ Step(Ev.ev = "WApply" /\ pc[Ev.t] = "flushed" /\ Apply(Ev.t))
    \/ Step(Ev.ev = "WApply" /\ pc[Ev.t] = "applied" /\ UNCHANGED vars)   \* further items of a batch
    \/ Step(Ev.ev = "WPublish" /\ Ack(Ev.t))
    \* Database::persist is not hooked: its effect takes place at some point between the call
    \* and the return events (which are logged outside the mutex).  A successful persist changes
    \* nothing the validated invariants depend on, so it is applied at the return.  A failing one
    \* poisons: that is a silent step, taken only when the next logged event requires it.
    \/ StepP(Ev.ev = "PCall" /\ UNCHANGED vars, pend \cup {Ev.t})
    \/ StepP(Ev.ev = "PRet" /\ Ev.ok /\ PersistOk, pend \ {Ev.t})
    \/ StepP(Ev.ev = "PRet" /\ ~Ev.ok /\ poisoned /\ UNCHANGED vars, pend \ {Ev.t})
    \/ /\ l <= Len(TraceRecs) /\ pend # {} /\ ~poisoned
       /\ (Ev.ev = "WRefused" \/ (Ev.ev = "PRet" /\ ~Ev.ok))
       /\ PersistFail
       /\ UNCHANGED <<l, pend>>

TraceSpec == TraceInit /\ [][TraceNext]_<<vars, l, pend>>

\* acceptance: the whole trace was consumed
\* acceptance: the whole trace was consumed (silent steps do not consume events, so the highest
\* index reached is kept in a TLC register, updated from the state constraint; -workers 1)
TrackL == TLCSet(1, IF l > TLCGet(1) THEN l ELSE TLCGet(1))
TraceAccepted ==
    LET d == TLCGet(1) IN
    IF d - 1 = Len(TraceRecs) THEN TRUE
    ELSE Print(<<"TRACE-REJECTED at event", d, TraceRecs[d]>>, FALSE)
=============================================================================
