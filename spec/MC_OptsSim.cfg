\* behaviour generation for the C16 replay: full product of configuration classes (360)
SPECIFICATION SimSpec
CONSTANTS
  Names = {"a", "b", "c"}
  Cfgs <- CfgsSim
  MaxId = 40
  MaxReopen = 6
  MaxOps = 40
  IdsFromJournal = TRUE
  SeqnoFromMeta = TRUE
INVARIANT ExportHist
CHECK_DEADLOCK FALSE
