------------------------------ MODULE Life_Trace ------------------------------
(* Validates lifecycle traces of the real code (multi-threaded handle churn, real worker
   threads) against DbLifecycle.  Events, globally ordered by the tracer mutex:

     hooks (placement rule: a step that enables other threads' steps is logged BEFORE it is
     performed, a step enabled by other threads AFTER):
       InstOpened i            the instance is constructed, the lock is held          (after)
       DbDropBegin i           Drop for DatabaseInner starts
       DbDropDrain1 i          stop signal sent, queue drained
       DbDropWorkersStopped i  the thread counter was seen at 0                       (after)
       DbDropDrain2 i / DbDropCleared i   final drain / cycles broken, fields are dropped next (before)
       KsInnerDrop i           Drop for KeyspaceInner starts, fields are dropped next (before)
       WorkerFail i / WorkerRel i / WorkerDec i   a worker ends: releases its state (before),
                               decrements the thread counter (before)
       JournalDropped i        Drop for Journal ran (final flush + SyncAll)           (after)
       Unlock i                the last clone of the lock guard goes                  (before)
     harness (thread t):
       Reset dir workers / SetMarker m
       OpenCall t / OpenRet t res            an open attempt (InstOpened in between if it succeeds)
       CloneDb i / OpenKs i / CloneKs i / Write i / KsSend i       (after the call)
       DropDb i / DropKs i                                          (before the drop)

   The releases of the supervisor and lock-guard clones by the field drops of DatabaseInner and
   KeyspaceInner are not hooked individually: JournalDropped / Unlock force them (every holder
   must have reached the point after which its fields are dropped).  The worker queue is not
   observed; the trace specification keeps it empty and does not constrain message handling.
   Every invariant of DbLifecycle that does not talk about the queue is evaluated in every
   state of the trace. *)
EXTENDS DbLifecycle, Json, IOUtils, SequencesExt

TraceRecs == ndJsonDeserialize(IOEnv.TRACE)
VARIABLES l,
          pendOpen,  \* [thread -> subset of {"H", "F", "N"}] since the thread's OpenCall ({} = no call pending): "H" the lock may have been held at some point, "F" it was free at the call, "N" the version marker was absent at the call
          unl        \* instances between their Unlock event (logged before the release) and their Unlocked event (after)
Ev == TraceRecs[l]
tvars == <<vars, l, pendOpen, unl>>
TThreads == 0..64

TraceInit ==
    /\ Init /\ l = 1
    /\ pendOpen = [t \in TThreads |-> {}] /\ unl = {}
    /\ TLCSet(1, 1)

Consume == l' = l + 1
NoteLock(held) == [t \in TThreads |-> IF pendOpen[t] = {} \/ ~held THEN pendOpen[t] ELSE pendOpen[t] \cup {"H"}]
\* The logged holding interval of the lock (after the acquisition .. before the release) lies
\* inside the real one.  A refusal with `Locked` needs the opposite approximation: the lock MAY
\* be held while the model says so, while an instance is between Unlock and Unlocked, and while
\* any other open attempt is in flight (an attempt holds the lock from its try_lock on, also one
\* that fails later).
MayBeHeld(t) == flock # 0 \/ unl # {} \/ \E t2 \in TThreads : t2 # t /\ pendOpen[t2] # {}

FirstWk(i, st) == CHOOSE w \in Wk : I[i].wk[w] = st /\ \A v \in Wk : v < w => I[i].wk[v] # st
HasWk(i, st) == \E w \in Wk : I[i].wk[w] = st

TraceNewInst(n) == [NewInst EXCEPT !.wk = [w \in Wk |-> IF w <= n THEN "idle" ELSE "none"], !.ctr = n]

\* every holder of a supervisor clone is past the point after which it drops its fields
SupReleasable(i) ==
    /\ I[i].supDb => I[i].dpc >= 4
    /\ I[i].supKs => I[i].ks \in {"drop", "relsup"}
    /\ \A w \in Wk : ~WorkerHoldsSup(i, w)
LockReleasable(i) ==
    /\ I[i].lockDb => I[i].dpc >= 4
    /\ I[i].lockKs => I[i].ks \in {"drop", "relsup"}

\* an event of an instance the trace never announced (InstOpened) - e.g. the unlock of a lock
\* guard that belongs to no opened instance - is not a step of the specification: rejected
EvInstOk == IF "inst" \in DOMAIN Ev THEN Ev.inst \in Inst ELSE TRUE

TraceNext ==
    /\ l <= Len(TraceRecs)
    /\ EvInstOk
    /\ \/ /\ Ev.ev = "Reset" /\ Consume
          /\ marker' = "none" /\ files' = [db |-> FALSE, jnl0 |-> FALSE, meta |-> FALSE, ks |-> FALSE]
          /\ flock' = 0 /\ att' = [a \in Inst |-> NoAtt] /\ I' = [i \in Inst |-> NoInst]
          /\ nsend' = 0 /\ unsyncedOpen' = FALSE
          /\ pendOpen' = [t \in TThreads |-> {}] /\ unl' = {}
       \/ /\ Ev.ev = "SetMarker" /\ Consume
          /\ flock = 0 /\ \A i \in Inst : ~HasUserHandle(i)
          /\ marker' = Ev.m
          /\ UNCHANGED <<files, flock, att, I, nsend, unsyncedOpen, pendOpen, unl>>
       \* ---- open attempts
       \/ /\ Ev.ev = "OpenCall" /\ Consume
          \* (this attempt may in turn explain a refusal of every attempt already in flight)
          /\ pendOpen' = [t \in TThreads |-> IF t = Ev.t THEN {IF MayBeHeld(Ev.t) THEN "H" ELSE "F"}
                                                                \cup (IF marker = "none" THEN {"N"} ELSE {})
                                             ELSE IF pendOpen[t] = {} THEN {} ELSE pendOpen[t] \cup {"H"}]
          /\ UNCHANGED <<vars, unl>>
       \* the instance exists and holds the lock: nobody else may hold it, the marker is compatible
       \* (or the directory is new), and no journal of an earlier instance is still unsynced
       \/ /\ Ev.ev = "InstOpened" /\ Consume
          /\ flock = 0
          /\ I[Ev.inst].up = FALSE
          /\ \/ marker \in GoodMarkers
             \/ marker = "none" /\ ~files.meta
          /\ flock' = Ev.inst
          /\ I' = [I EXCEPT ![Ev.inst] = IF files.ks
                                           THEN [TraceNewInst(Ev.workers) EXCEPT !.ks = "alive", !.ksmap = TRUE, !.supKs = TRUE, !.lockKs = TRUE]
                                           ELSE TraceNewInst(Ev.workers)]
          /\ marker' = IF marker = "none" THEN "v3" ELSE marker
          /\ files' = [files EXCEPT !.db = TRUE, !.jnl0 = TRUE, !.meta = TRUE]
          /\ unsyncedOpen' = (unsyncedOpen \/ OthersUnsynced(Ev.inst))
          /\ pendOpen' = NoteLock(TRUE)
          /\ UNCHANGED <<att, nsend, unl>>
       \/ /\ Ev.ev = "OpenRet" /\ Consume
          /\ \/ Ev.res = "ok"
             \* refused with a lock error: the lock was held at some point during the call
             \/ Ev.res = "locked" /\ "H" \in pendOpen[Ev.t]
             \* refused as incompatible: the marker is (existing database without marker included)
             \/ Ev.res = "invalid_version" /\ marker \notin GoodMarkers /\ (marker = "none" => files.meta)
             \* ... or the attempt went down the creation path (no marker at the call) and found, with
             \* the lock held, that somebody else had created the database in the meantime
             \/ Ev.res = "invalid_version" /\ "N" \in pendOpen[Ev.t] /\ marker \in GoodMarkers
             \/ Ev.res = "io_error"
          /\ pendOpen' = [pendOpen EXCEPT ![Ev.t] = {}]
          /\ UNCHANGED <<vars, unl>>
       \* ---- user handles
       \/ /\ Ev.ev = "CloneDb" /\ Consume /\ I[Ev.inst].db > 0
          /\ I' = [I EXCEPT ![Ev.inst].db = @ + 1]
          /\ UNCHANGED <<marker, files, flock, att, nsend, unsyncedOpen, pendOpen, unl>>
       \/ /\ Ev.ev = "DropDb" /\ Consume /\ I[Ev.inst].db > 0
          /\ I' = [I EXCEPT ![Ev.inst].db = @ - 1]
          /\ UNCHANGED <<marker, files, flock, att, nsend, unsyncedOpen, pendOpen, unl>>
       \/ /\ Ev.ev = "OpenKs" /\ Consume /\ I[Ev.inst].db > 0
          /\ IF I[Ev.inst].ks = "none"
             THEN I' = [I EXCEPT ![Ev.inst].ks = "alive", ![Ev.inst].ksmap = TRUE, ![Ev.inst].ksu = 1,
                                 ![Ev.inst].supKs = TRUE, ![Ev.inst].lockKs = TRUE]
             ELSE /\ I[Ev.inst].ks = "alive"
                  /\ I' = [I EXCEPT ![Ev.inst].ksu = @ + 1]
          /\ files' = [files EXCEPT !.ks = TRUE]
          /\ UNCHANGED <<marker, flock, att, nsend, unsyncedOpen, pendOpen, unl>>
       \/ /\ Ev.ev = "CloneKs" /\ Consume /\ I[Ev.inst].ksu > 0
          /\ I' = [I EXCEPT ![Ev.inst].ksu = @ + 1]
          /\ UNCHANGED <<marker, files, flock, att, nsend, unsyncedOpen, pendOpen, unl>>
       \/ /\ Ev.ev = "DropKs" /\ Consume /\ I[Ev.inst].ksu > 0
          /\ I' = [I EXCEPT ![Ev.inst].ksu = @ - 1]
          /\ UNCHANGED <<marker, files, flock, att, nsend, unsyncedOpen, pendOpen, unl>>
       \/ /\ Ev.ev = "Write" /\ Consume /\ HasUserHandle(Ev.inst) /\ I[Ev.inst].journal = "open"
          /\ I' = [I EXCEPT ![Ev.inst].dirty = TRUE]
          /\ UNCHANGED <<marker, files, flock, att, nsend, unsyncedOpen, pendOpen, unl>>
       \/ /\ Ev.ev \in {"KsSend", "Note"} /\ Consume /\ UNCHANGED <<vars, pendOpen, unl>>
       \* ---- Drop for DatabaseInner
       \/ /\ Ev.ev = "DbDropBegin" /\ Consume
          /\ I[Ev.inst].alive /\ I[Ev.inst].db = 0 /\ I[Ev.inst].dpc = 0
          /\ UNCHANGED <<vars, pendOpen, unl>>
       \/ /\ Ev.ev = "DbDropDrain1" /\ Consume /\ DStop(Ev.inst) /\ UNCHANGED <<pendOpen, unl>>
       \* the loop was left: every worker must have been counted out before
       \/ /\ Ev.ev = "DbDropWorkersStopped" /\ Consume
          /\ I[Ev.inst].dpc = 1 /\ I[Ev.inst].ctr = 0
          /\ I' = [I EXCEPT ![Ev.inst].dpc = 2]
          /\ UNCHANGED <<marker, files, flock, att, nsend, unsyncedOpen, pendOpen, unl>>
       \/ /\ Ev.ev = "DbDropDrain2" /\ Consume /\ DDrain2(Ev.inst) /\ UNCHANGED <<pendOpen, unl>>
       \/ /\ Ev.ev = "DbDropCleared" /\ Consume /\ DClear(Ev.inst) /\ UNCHANGED <<pendOpen, unl>>
       \* ---- Drop for KeyspaceInner: no user handle is left; the clone in the keyspace map is
       \* released by the clear() of the database drop (which is in progress after DbDropDrain2)
       \/ /\ Ev.ev = "KsInnerDrop" /\ Consume
          /\ I[Ev.inst].ks = "alive" /\ I[Ev.inst].ksu = 0
          /\ I[Ev.inst].ksmap => I[Ev.inst].dpc = 3
          /\ I' = [I EXCEPT ![Ev.inst].ks = "drop", ![Ev.inst].ksmap = FALSE]
          /\ UNCHANGED <<marker, files, flock, att, nsend, unsyncedOpen, pendOpen, unl>>
       \* ---- workers
       \/ /\ Ev.ev = "WorkerFail" /\ Consume /\ HasWk(Ev.inst, "idle") /\ UNCHANGED <<vars, pendOpen, unl>>
       \/ /\ Ev.ev = "WorkerRel" /\ Consume /\ HasWk(Ev.inst, "idle")
          /\ I' = [I EXCEPT ![Ev.inst].wk[FirstWk(Ev.inst, "idle")] = "rel"]
          /\ UNCHANGED <<marker, files, flock, att, nsend, unsyncedOpen, pendOpen, unl>>
       \/ /\ Ev.ev = "WorkerDec" /\ Consume /\ HasWk(Ev.inst, "rel")
          /\ I' = [I EXCEPT ![Ev.inst].wk[FirstWk(Ev.inst, "rel")] = "gone", ![Ev.inst].ctr = @ - 1]
          /\ UNCHANGED <<marker, files, flock, att, nsend, unsyncedOpen, pendOpen, unl>>
       \* ---- the journal is dropped by whoever released the last supervisor clone
       \/ /\ Ev.ev = "JournalDropped" /\ Consume
          /\ I[Ev.inst].journal = "open" /\ SupReleasable(Ev.inst)
          /\ I' = [I EXCEPT ![Ev.inst].journal = "dropped", ![Ev.inst].dirty = FALSE,
                            ![Ev.inst].supDb = FALSE, ![Ev.inst].supKs = FALSE,
                            ![Ev.inst].dpc = IF @ = 4 THEN 5 ELSE @,
                            ![Ev.inst].ks = IF @ = "drop" THEN "relsup" ELSE @]
          /\ UNCHANGED <<marker, files, flock, att, nsend, unsyncedOpen, pendOpen, unl>>
       \* ---- the lock is released by whoever dropped the last clone of the guard
       \/ /\ Ev.ev = "Unlock" /\ Consume
          /\ flock = Ev.inst /\ LockReleasable(Ev.inst)
          /\ flock' = 0
          /\ I' = [I EXCEPT ![Ev.inst].lockDb = FALSE, ![Ev.inst].lockKs = FALSE, ![Ev.inst].alive = FALSE,
                            ![Ev.inst].rx = FALSE,
                            ![Ev.inst].dpc = IF @ >= 4 THEN 7 ELSE @,
                            ![Ev.inst].ks = IF @ \in {"drop", "relsup"} THEN "gone" ELSE @]
          /\ unl' = unl \cup {Ev.inst}
          /\ UNCHANGED <<marker, files, att, nsend, unsyncedOpen, pendOpen>>
       \/ /\ Ev.ev = "Unlocked" /\ Consume
          /\ unl' = unl \ {Ev.inst}
          /\ UNCHANGED <<vars, pendOpen>>

TraceSpec == TraceInit /\ [][TraceNext]_tvars

TrackL == TLCSet(1, IF l > TLCGet(1) THEN l ELSE TLCGet(1))
TraceAccepted ==
    LET d == TLCGet(1) IN
    IF d - 1 = Len(TraceRecs) THEN TRUE
    ELSE Print(<<"TRACE-REJECTED at event", d, TraceRecs[d]>>, FALSE)
=============================================================================
