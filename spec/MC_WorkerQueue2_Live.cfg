\* C14, last clause as liveness: under weak fairness of the workers a write stall ends
SPECIFICATION FairSpec
CONSTANTS
  NWorkers = 2
  QCap = 3
  MaxWrites = 7
  Ks = {1, 2}
  AsFound = FALSE
  FlushTrySend = FALSE
PROPERTY StallEnds
CHECK_DEADLOCK FALSE
