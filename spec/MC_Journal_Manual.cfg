\* C09: the same with manual_journal_persist (persist(Buffer) is what makes writes crash-durable)
SPECIFICATION Spec
CONSTANTS
  Threads = {1, 2}
  MaxOps = 3
  Kinds = {"w", "c", "b"}
  ManualKs = TRUE
  ManualDb = FALSE
  PersistShortcut = FALSE
  SyncBatchSyncs = TRUE
  MaxFaults = 0
  EnPersistCall = TRUE
  FixPoisonAppend = TRUE
  ClearFlushes = TRUE
INVARIANTS CrashRecoversAcked PowerLossKeepsDurable CrashKeepsBuffered SyncOrder MutualExclusion FailStop ClearDropsTablesOnlyWithRecord
CHECK_DEADLOCK FALSE
