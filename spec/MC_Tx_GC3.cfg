\* C07 / C05: 3 transactions, 1 operation each (2 in the thorough tier), tracker counts, gc, pruning of the oracle table, version upgrades
SPECIFICATION Spec
CONSTANTS
  Txs = {1, 2, 3}
  Keys = {1}
  KsSplit = 100
  MaxOpsPerTx = 1
  Methods = {"get", "insert"}
  SingleWriter = FALSE
  EnGC = TRUE
  FixSizeOf = TRUE
  FixDoubleClose = TRUE
VIEW TxViewBase
INVARIANTS Serializable LiveSnapshotProtected PruneKeepsNeeded NoEffectUnlessCommitted
CHECK_DEADLOCK FALSE
