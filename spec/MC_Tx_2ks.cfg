\* C08 / C07: 2 transactions over 2 keyspaces that hold the SAME user keys (keys 1,2 in the first, 3,4 in the second): scans, ranges and their footprints are per keyspace
SPECIFICATION Spec
CONSTANTS
  Txs = {1, 2}
  Keys = {1, 2, 3, 4}
  KsSplit = 2
  MaxOpsPerTx = 2
  Methods = {"get", "scan", "range_lo", "insert", "remove", "rmw"}
  SingleWriter = FALSE
  EnGC = FALSE
  FixSizeOf = TRUE
  FixDoubleClose = TRUE
VIEW TxViewBase
INVARIANTS Serializable NoEffectUnlessCommitted CommitIsFinalWrites
CHECK_DEADLOCK FALSE
