----------------------------- MODULE FjallStore -----------------------------
(***************************************************************************)
(* fjall's keyspace layer as a state machine: keyspaces (LSM structure =   *)
(* active memtable, sealed memtables, runs, version history), the shared   *)
(* journal with rotation / watermarks / eviction, the two shared counters, *)
(* the snapshot tracker, keyspace creation / deletion, and recovery        *)
(* (Database::recover + recover_keyspaces + recover_sealed_memtables +     *)
(* active-journal replay).  One action per critical section of the code;   *)
(* client operations are atomic here (the journal mutex is held for the    *)
(* whole section); the sub-stepped versions live in FjallCrash / FjallMVCC.*)
(*                                                                         *)
(* The model is mechanistic: point reads are first-hit over                *)
(* active -> sealed (newest first) -> runs, scans merge all sources by     *)
(* seqno, recovery replays the active journal unconditionally.  The listed *)
(* properties are invariants over that mechanism, against history          *)
(* variables (ref = the sorted reference map, frozen = view contents).     *)
(***************************************************************************)
EXTENDS Naturals, Sequences, FiniteSets, TLC

CONSTANTS
    Keys,        \* finite set of naturals; the order of naturals is the key order
    Names,       \* keyspace names
    MaxId,       \* ids are 1..MaxId
    MaxOps,      \* bound on client write operations
    MaxReopen,   \* bound on close+reopen cycles
    MaxMaint,    \* bound on maintenance steps (rotate/flush/compact/gc)
    MaxViews,    \* bound on views opened
    EnBatch, EnClear, EnIngest, EnKs, EnJRot, EnViews, EnCompact, EnRemove, EnPersist,
    FilterNames, \* names for which the builder's assigner returns a filter factory (C18)
    FixCovered,  \* model of repair: recovery skips journal records covered by tables
    FixSeqno,    \* model of repair: recovery restores seqno above every journal record
    FixIdSeed,   \* model of repair: keyspace id counter never reuses an id still in a journal
    FixMetaSeqno, \* model of repair: recovery restores seqno above the meta keyspace's entries
    FixTrkZero   \* model of repair: tracker gc no longer uses instant 0 as its 'unset' marker

VARIABLES
    seqno,      \* next sequence number to hand out           (supervisor.seqno)
    visible,    \* visible seqno                               (snapshot_tracker.seqno)
    nextId,     \* keyspace_id_counter
    kmap,       \* [Names -> 0..MaxId]  in-memory map name -> id (0 = none)
    meta,       \* entries [id, name, s, t] of the meta keyspace (durable): t = "V" name row, "T" tombstone;
                \* the meta tree is compacted eagerly: only the newest entry per id is kept
    dirs,       \* set of ids whose keyspace directory exists
    lsm,        \* [1..MaxId -> [a, sl, rn, vs]] latest super version of each tree
    old,        \* [1..MaxId -> Seq([a, sl, rn, vs])] older super versions (oldest first)
    zombie,     \* ids deleted in this process whose KeyspaceInner is still alive
    held,       \* ids for which the client still holds a handle clone
    journals,   \* Seq of [jid, recs]; last = active journal
    jmgr,       \* Seq of [jid, wm]; wm = set of [id, lsn]
    flushq,     \* Seq of ids (flush tasks)
    views,      \* set of [vid, inst]  (open snapshots)
    trk,        \* [data : set of [inst, cnt], wm : Nat]  snapshot tracker
    filt,       \* [1..MaxId -> {"none", "A", "B"}] compaction filter installed on the tree
    \* ---- history / bookkeeping
    ref,        \* [Names -> [Keys -> Nat]] reference map (0 = absent) for existing names
    frozen,     \* [vid -> [Names -> [Keys -> Nat]]] content of each view when opened
    taint,      \* set of ids whose recovered state is known to be affected by a known finding
    mtaint,     \* ids that MAY be affected by D1D2 depending on what compaction did to the tables (replay waiver only)
    ing,        \* [1..MaxId -> Nat] global seqno + 1 of the latest bulk ingestion into the tree (0 = none)
    kf,         \* set of known-finding labels that apply to the current state
    everDel,    \* set of values ever written to a keyspace that was deleted afterwards
    nops, nreopen, nmaint, nviews,
    last        \* label of the last action (for export only)

vars == <<seqno, visible, nextId, kmap, meta, dirs, lsm, old, zombie, held, journals, jmgr,
          flushq, views, trk, filt, ref, frozen, taint, mtaint, ing, kf, everDel,
          nops, nreopen, nmaint, nviews, last>>

Ids == 1..MaxId
NoVal == 0

-----------------------------------------------------------------------------
(* Entries and read rules                                                    *)

Entry(k, s, t, v, g) == [k |-> k, s |-> s, t |-> t, v |-> v, g |-> g]
   \* t \in {"V","T"}; g = TRUE for entries that came from bulk ingestion

EmptyLsm == [a |-> {}, sl |-> <<>>, rn |-> <<>>, vs |-> 0]

RECURSIVE UnionSeq(_)
UnionSeq(s) == IF s = <<>> THEN {} ELSE Head(s) \cup UnionSeq(Tail(s))

RECURSIVE RevSeq(_)
RevSeq(s) == IF s = <<>> THEN <<>> ELSE Append(RevSeq(Tail(s)), Head(s))

MaxOf(S) == IF S = {} THEN 0 ELSE CHOOSE x \in S : \A y \in S : y <= x

\* all orderings of a finite set, as sequences
Perms(S) == {f \in [1..Cardinality(S) -> S] : \A a, b \in 1..Cardinality(S) : a # b => f[a] # f[b]}

\* meta keyspace: the newest entry of an id decides (ties: the tombstone wins)
MetaNewest(M) == {e \in M : \A f \in M : f.id = e.id =>
                               (f.s < e.s \/ (f.s = e.s /\ (e.t = "T" \/ f.t = "V")))}
MetaName(M, id) == LET r == {e \in M : e.id = id /\ e.t = "V"} IN
                   IF r = {} THEN "" ELSE (CHOOSE e \in r : TRUE).name
MetaResolves(M, id) == \E e \in M : e.id = id /\ e.t = "V"

\* sources in the order a point read consults them
Sources(L) == <<L.a>> \o RevSeq(L.sl) \o L.rn

\* the newest entry for k below instant i in one source
BestIn(S, k, i) ==
    LET es == {e \in S : e.k = k /\ e.s < i}
    IN IF es = {} THEN [found |-> FALSE, v |-> NoVal]
       ELSE LET e == CHOOSE e \in es : \A f \in es : f.s <= e.s
            IN [found |-> TRUE, v |-> IF e.t = "V" THEN e.v ELSE NoVal]

RECURSIVE FirstHit(_, _, _)
FirstHit(srcs, k, i) ==
    IF srcs = <<>> THEN NoVal
    ELSE LET b == BestIn(Head(srcs), k, i)
         IN IF b.found THEN b.v ELSE FirstHit(Tail(srcs), k, i)

Inf == 1000   \* SeqNo::MAX

PointReadV(L, k, i) == FirstHit(Sources(L), k, i)               \* first hit wins
ScanReadV(L, k, i)  == BestIn(UnionSeq(Sources(L)), k, i).v     \* highest seqno wins

\* the super version a snapshot with instant i uses: newest version with vs < i,
\* the oldest one for i = 0 (get_version_for_snapshot)
AllVersions(id) == old[id] \o <<lsm[id]>>
VersionFor(id, i) ==
    LET vsq == AllVersions(id)
        ok  == {n \in 1..Len(vsq) : vsq[n].vs < i}
    IN IF i = 0 THEN vsq[1]
       ELSE IF ok = {} THEN [a |-> {}, sl |-> <<>>, rn |-> <<>>, vs |-> 0, missing |-> TRUE]
       ELSE vsq[MaxOf(ok)]
VersionMissing(id, i) == i # 0 /\ \A n \in 1..Len(AllVersions(id)) : AllVersions(id)[n].vs >= i

PointRead(id, k, i) == PointReadV(VersionFor(id, i), k, i)
ScanRead(id, k, i)  == ScanReadV(VersionFor(id, i), k, i)

LiveNames == {n \in Names : kmap[n] # 0}
LiveIds   == {kmap[n] : n \in LiveNames}

HighestMemSeqno(L) == MaxOf({e.s + 1 : e \in L.a \cup UnionSeq(L.sl)})      \* +1 so 0 = None
HighestPersisted(L) == MaxOf({e.s + 1 : e \in UnionSeq(L.rn)})             \* +1 so 0 = None
HighestSeqno(L) == MaxOf({HighestMemSeqno(L), HighestPersisted(L)})

-----------------------------------------------------------------------------
(* Merging (flush / compaction): CompactionStream's GC rule                  *)
(* per key: keep the newest entry, and every entry with s >= wm;             *)
(* evict: a tombstone that ends up as the oldest kept entry of its key is    *)
(* dropped (last level)                                                      *)

KeepSet(S, wm) ==
    {e \in S : \/ e.s >= wm
               \/ \A f \in S : f.k = e.k => f.s <= e.s}

EvictTombs(S) == {e \in S : ~(e.t = "T" /\ \A f \in S : f.k = e.k => f.s >= e.s)}

\* compaction filters.  The builder's assigner hands every name in FilterNames its OWN filter
\* (kind "A" for the name "a", kind "B" for every other name):
\*   A (decided from the key):  key 1 -> Remove, key 2 -> ReplaceValue(99), other keys -> Keep
\*   B (looks at the value too): key 1 -> ReplaceValue(98); key 2 -> Remove if the value is an odd
\*      number, Keep if it is even (a "TTL in the value" filter); other keys -> Keep
\* Applied to every value entry a compaction rewrites (CompactionStream offers every version it
\* retains to the filter, newest first; versions below the gc watermark are drained unseen -
\* which KeepSet after ApplyFilter reproduces).
FilteredVal == 99
FilteredValB == 98
KindFor(n) == IF n \notin FilterNames THEN "none" ELSE IF n = "a" THEN "A" ELSE "B"
FilterEntryK(kind, e) ==
    IF e.t # "V" \/ kind = "none" THEN e
    ELSE IF kind = "A" THEN (IF e.k = 1 THEN [e EXCEPT !.t = "T", !.v = NoVal]      \* Verdict::Remove
                             ELSE IF e.k = 2 THEN [e EXCEPT !.v = FilteredVal]       \* Verdict::ReplaceValue
                             ELSE e)                                                \* Verdict::Keep
    ELSE (IF e.k = 2 THEN (IF e.v % 2 = 1 THEN [e EXCEPT !.t = "T", !.v = NoVal] ELSE e)
          ELSE IF e.k = 1 THEN [e EXCEPT !.v = FilteredValB]
          ELSE e)
ApplyFilter(S, kind) == {FilterEntryK(kind, e) : e \in S}
FilteredFormK(kind, k, v) ==
    IF v = NoVal \/ kind = "none" THEN v
    ELSE IF kind = "A" THEN (IF k = 1 THEN NoVal ELSE IF k = 2 THEN FilteredVal ELSE v)
    ELSE (IF k = 2 THEN (IF v % 2 = 1 THEN NoVal ELSE v) ELSE IF k = 1 THEN FilteredValB ELSE v)

Merge(S, wm, evict, fon) ==
    LET kept == KeepSet(ApplyFilter(S, fon), wm)
    IN IF evict THEN EvictTombs(kept) ELSE kept

-----------------------------------------------------------------------------
(* Tracker                                                                   *)

TrkCount(i) == LET r == {d \in trk.data : d.inst = i} IN
               IF r = {} THEN 0 ELSE (CHOOSE d \in r : TRUE).cnt
TrkInc(T, i) ==
    LET r == {d \in T.data : d.inst = i}
    IN IF r = {} THEN [T EXCEPT !.data = @ \cup {[inst |-> i, cnt |-> 1]}]
       ELSE LET d == CHOOSE d \in r : TRUE
            IN [T EXCEPT !.data = (@ \ {d}) \cup {[inst |-> i, cnt |-> d.cnt + 1]}]
TrkDec(T, i) ==
    LET r == {d \in T.data : d.inst = i}
    IN IF r = {} THEN T
       ELSE LET d == CHOOSE d \in r : TRUE
            IN [T EXCEPT !.data = (@ \ {d}) \cup
                    {[inst |-> i, cnt |-> IF d.cnt = 0 THEN 0 ELSE d.cnt - 1]}]
\* gc(): retain entries with count > 0 or instant >= visible; watermark := max(wm, lowest-1).
\* Before the repair the fold over the retained instants used 0 as its "unset" marker: a
\* retained instant 0 reset the fold, so the result depended on the hash-map iteration order
\* and could be any later retained instant (modelled by its worst case, the largest one).
TrkGC(T, vis) ==
    LET keep == {d \in T.data : d.cnt > 0 \/ d.inst >= vis}
        insts == {d.inst : d \in keep}
        nz == {i \in insts : i # 0}
        lowest == IF keep = {} THEN vis
                  ELSE IF FixTrkZero THEN CHOOSE x \in insts : \A y \in insts : x <= y
                  ELSE IF nz = {} THEN 0
                  ELSE IF 0 \in insts THEN MaxOf(nz)
                  ELSE CHOOSE x \in nz : \A y \in nz : x <= y
        cand == IF lowest = 0 THEN 0 ELSE lowest - 1
    IN [data |-> keep, wm |-> IF cand > T.wm THEN cand ELSE T.wm]
\* pullup(): if no entries at all, wm := visible - 1 (store, not fetch_max)
TrkPullup(T, vis) ==
    IF T.data = {} THEN [T EXCEPT !.wm = IF vis = 0 THEN 0 ELSE vis - 1] ELSE T

-----------------------------------------------------------------------------
(* Version history                                                           *)

\* upgrade_version: the new latest version gets seqno vs; the previous latest is kept in the
\* history (only recorded while views are open: a version superseded while no view is open can
\* never be selected by a later view, whose instant is above every existing version seqno)
PushOld(id, prev) == IF views = {} THEN old[id] ELSE Append(old[id], prev)

\* SuperVersions::maintenance(wm): drop every version that has a newer version with vs < wm
VersMaint(vsq, latest, wm) ==
    IF wm = 0 \/ vsq = <<>> THEN vsq
    ELSE LET all == vsq \o <<latest>>
             ok  == {n \in 1..Len(all) : all[n].vs < wm}
         IN IF ok = {} THEN vsq
            ELSE LET hi == MaxOf(ok) IN SubSeq(all, hi, Len(all) - 1)

-----------------------------------------------------------------------------
(* Journal                                                                   *)

Active == journals[Len(journals)]
JAppend(rec) == [journals EXCEPT ![Len(journals)].recs = Append(@, rec)]

\* JournalManager::maintenance(): evict oldest sealed journals while every watermark of
\* the oldest is satisfied (deleted keyspaces do not count)
WmSatisfied(w, L, zmb) ==
    \/ w.id \in zmb
    \/ HighestPersisted(L[w.id]) # 0 /\ HighestPersisted(L[w.id]) - 1 >= w.lsn

RECURSIVE EvictCount(_, _, _)
EvictCount(jm, L, zmb) ==
    IF jm = <<>> THEN 0
    ELSE IF \A w \in Head(jm).wm : WmSatisfied(w, L, zmb)
         THEN 1 + EvictCount(Tail(jm), L, zmb)
         ELSE 0

\* ids kept alive by internal holders
InternalHolders(fq, jm) ==
    {fq[n] : n \in 1..Len(fq)} \cup UNION {{w.id : w \in jm[n].wm} : n \in 1..Len(jm)}

-----------------------------------------------------------------------------
(* Initial state: a freshly created database                                 *)

NoRef == [k \in Keys |-> NoVal]

Init ==
    /\ seqno = 0 /\ visible = 0 /\ nextId = 1
    /\ kmap = [n \in Names |-> 0]
    /\ meta = {} /\ dirs = {}
    /\ lsm = [i \in Ids |-> EmptyLsm]
    /\ old = [i \in Ids |-> <<>>]
    /\ zombie = {} /\ held = {}
    /\ journals = <<[jid |-> 0, recs |-> <<>>]>>
    /\ jmgr = <<>> /\ flushq = <<>>
    /\ views = {} /\ trk = [data |-> {}, wm |-> 0]
    /\ filt = [i \in Ids |-> "none"]
    /\ ref = [n \in Names |-> NoRef]
    /\ frozen = <<>>
    /\ taint = {} /\ kf = {} /\ everDel = {}
    /\ ing = [i \in Ids |-> 0]
    /\ mtaint = {}
    /\ nops = 0 /\ nreopen = 0 /\ nmaint = 0 /\ nviews = 0
    /\ last = [a |-> "Init"]

-----------------------------------------------------------------------------
(* Helpers for zombie reaping: a deleted keyspace's folder disappears when   *)
(* the last Arc<KeyspaceInner> goes away                                     *)

Reaped(zmb, hld, fq, jm) == {z \in zmb : z \notin hld /\ z \notin InternalHolders(fq, jm)}

-----------------------------------------------------------------------------
(* Keyspace creation / deletion                                              *)

\* Database::keyspace(name) for a name that does not exist: id := counter.next();
\* create_new (directory + tree); meta ingestion (2 version upgrades of the meta tree are
\* not modelled individually: each meta ingestion draws one seqno and bumps visible)
CreateKeyspace(n) ==
    /\ kmap[n] = 0
    /\ nextId <= MaxId
    /\ LET id == nextId IN
       /\ nextId' = nextId + 1
       /\ kmap' = [kmap EXCEPT ![n] = id]
       /\ meta' = MetaNewest(meta \cup {[id |-> id, name |-> n, s |-> seqno, t |-> "V"]})
       /\ dirs' = dirs \cup {id}
       /\ lsm' = [lsm EXCEPT ![id] = EmptyLsm]
       /\ old' = [old EXCEPT ![id] = <<>>]
       /\ filt' = [filt EXCEPT ![id] = KindFor(n)]
       /\ seqno' = seqno + 1
       /\ visible' = IF seqno + 1 > visible THEN seqno + 1 ELSE visible
       /\ ref' = [ref EXCEPT ![n] = NoRef]
       /\ ing' = [ing EXCEPT ![id] = 0]
       /\ last' = [a |-> "Create", name |-> n]
    /\ UNCHANGED <<zombie, held, journals, jmgr, flushq, views, trk, frozen, taint, mtaint, kf,
                   everDel, nops, nreopen, nmaint, nviews>>

\* Database::delete_keyspace(handle): tombstones in the meta tree (draws a seqno explicitly and
\* one for the ingestion), removed from the map, is_deleted := true.  keepHandle = the client
\* keeps a clone of the handle.
DeleteKeyspace(n, keepHandle) ==
    /\ EnKs
    /\ kmap[n] # 0
    /\ LET id == kmap[n]
           hld == IF keepHandle THEN held \cup {id} ELSE held \ {id}
           zmb == zombie \cup {id}
           rp  == Reaped(zmb, hld, flushq, jmgr)
       IN
       /\ kmap' = [kmap EXCEPT ![n] = 0]
       /\ meta' = MetaNewest(meta \cup {[id |-> id, name |-> n, s |-> seqno + 1, t |-> "T"]})
       /\ held' = hld
       /\ zombie' = zmb \ rp
       /\ dirs' = dirs \ rp
       /\ lsm' = [i \in Ids |-> IF i \in rp THEN EmptyLsm ELSE lsm[i]]
       /\ old' = [i \in Ids |-> IF i \in rp THEN <<>> ELSE old[i]]
       /\ seqno' = seqno + 2
       /\ visible' = IF seqno + 2 > visible THEN seqno + 2 ELSE visible
       /\ everDel' = everDel \cup {e.v : e \in {x \in lsm[id].a \cup UnionSeq(lsm[id].sl)
                                                   \cup UnionSeq(lsm[id].rn) : x.t = "V"}}
       /\ ref' = [ref EXCEPT ![n] = NoRef]
       /\ last' = [a |-> "Delete", name |-> n, keep |-> keepHandle]
    /\ UNCHANGED <<nextId, journals, jmgr, flushq, views, trk, filt, frozen, taint, mtaint, ing, kf,
                   nops, nreopen, nmaint, nviews>>

\* the client drops its clone of a deleted keyspace's handle
DropHandle(id) ==
    /\ EnKs
    /\ id \in held
    /\ LET hld == held \ {id}
           rp  == Reaped(zombie, hld, flushq, jmgr)
       IN
       /\ held' = hld
       /\ zombie' = zombie \ rp
       /\ dirs' = dirs \ rp
       /\ lsm' = [i \in Ids |-> IF i \in rp THEN EmptyLsm ELSE lsm[i]]
       /\ old' = [i \in Ids |-> IF i \in rp THEN <<>> ELSE old[i]]
       /\ last' = [a |-> "DropHandle", id |-> id]
    /\ UNCHANGED <<seqno, visible, nextId, kmap, meta, journals, jmgr, flushq, views, trk,
                   filt, ref, frozen, taint, mtaint, ing, kf, everDel, nops, nreopen, nmaint, nviews>>

-----------------------------------------------------------------------------
(* Client writes (atomic: the journal mutex is held from draw to publish)    *)

Publish(s) == IF s + 1 > visible THEN s + 1 ELSE visible

\* Keyspace::insert / remove on a live keyspace
\* write stall (local_backpressure): a writer sleeps while its keyspace has 4 or more sealed
\* memtables queued - modelled as the write being disabled until a flush made room
NoStall(id) == Len(lsm[id].sl) < 4

Write(n, k, isDel) ==
    /\ nops < MaxOps
    /\ kmap[n] # 0 /\ NoStall(kmap[n])
    /\ isDel => EnRemove
    /\ LET id == kmap[n]
           s  == seqno
           v  == nops + 1
           e  == IF isDel THEN Entry(k, s, "T", NoVal, FALSE) ELSE Entry(k, s, "V", v, FALSE)
       IN
       /\ seqno' = s + 1
       /\ journals' = JAppend([s |-> s, items |-> <<[id |-> id, k |-> k,
                                   t |-> e.t, v |-> e.v]>>, clears |-> <<>>])
       /\ lsm' = [lsm EXCEPT ![id].a = @ \cup {e}]
       /\ visible' = Publish(s)
       /\ ref' = [ref EXCEPT ![n][k] = e.v]
       /\ last' = [a |-> IF isDel THEN "Remove" ELSE "Insert", name |-> n, k |-> k, v |-> e.v]
    /\ nops' = nops + 1
    /\ UNCHANGED <<nextId, kmap, meta, dirs, old, zombie, held, jmgr, flushq, views, trk,
                   filt, frozen, taint, mtaint, ing, kf, everDel, nreopen, nmaint, nviews>>

\* a batch of two items (possibly over two keyspaces, possibly the same key twice)
\* `dur`: the durability level the batch was given ("none" = the default: Buffer, or nothing
\* with manual journal persist).  Like Persist it changes no logical state; a batch committed
\* with SyncData / SyncAll is a sync point of the crash / power-loss campaigns (C09).
BatchDurs == IF EnPersist THEN {"none", "Buffer", "SyncData", "SyncAll"} ELSE {"none"}
BatchCommit(n1, k1, d1, n2, k2, d2, dur) ==
    /\ EnBatch /\ dur \in BatchDurs
    /\ nops < MaxOps
    /\ kmap[n1] # 0 /\ kmap[n2] # 0 /\ NoStall(kmap[n1]) /\ NoStall(kmap[n2])
    /\ (d1 \/ d2) => EnRemove
    /\ LET s  == seqno
           v  == nops + 1
           i1 == kmap[n1]  i2 == kmap[n2]
           e1 == IF d1 THEN Entry(k1, s, "T", NoVal, FALSE) ELSE Entry(k1, s, "V", v, FALSE)
           e2 == IF d2 THEN Entry(k2, s, "T", NoVal, FALSE) ELSE Entry(k2, s, "V", v, FALSE)
           \* same keyspace + same key + same seqno: the later item replaces the earlier one
           \* in the memtable (skiplist insert of an equal internal key is not modelled: avoid)
       IN
       /\ ~(i1 = i2 /\ k1 = k2)
       /\ seqno' = s + 1
       /\ journals' = JAppend([s |-> s,
                               items |-> <<[id |-> i1, k |-> k1, t |-> e1.t, v |-> e1.v],
                                           [id |-> i2, k |-> k2, t |-> e2.t, v |-> e2.v]>>,
                               clears |-> <<>>])
       /\ lsm' = IF i1 = i2 THEN [lsm EXCEPT ![i1].a = @ \cup {e1, e2}]
                 ELSE [lsm EXCEPT ![i1].a = @ \cup {e1}, ![i2].a = @ \cup {e2}]
       /\ visible' = Publish(s)
       /\ ref' = [m \in Names |->
                    [k \in Keys |-> IF m = n2 /\ k = k2 THEN e2.v
                                    ELSE IF m = n1 /\ k = k1 THEN e1.v ELSE ref[m][k]]]
       /\ last' = [a |-> "Batch", dur |-> dur,
                    items |-> <<[name |-> n1, k |-> k1, v |-> e1.v, del |-> d1],
                                [name |-> n2, k |-> k2, v |-> e2.v, del |-> d2]>>]
    /\ nops' = nops + 1
    /\ UNCHANGED <<nextId, kmap, meta, dirs, old, zombie, held, jmgr, flushq, views, trk,
                   filt, frozen, taint, mtaint, ing, kf, everDel, nreopen, nmaint, nviews>>

\* A batch that still holds the handle of a keyspace that was deleted in the meantime (the
\* client kept a clone: id \in held), together with an item for a live keyspace.  commit()
\* does not look at is_deleted: the journal record carries the deleted keyspace's id (recovery
\* skips it: the id no longer resolves and is never handed out again), the item lands in the
\* memtable of the deleted keyspace, which nobody can read.  Nothing of it may show up anywhere
\* else - in particular not in a keyspace re-created under the same name (C12).
StaleBatch(id, k1, d1, n2, k2, d2) ==
    /\ EnBatch /\ EnKs
    /\ nops < MaxOps
    /\ id \in held /\ id \in zombie
    /\ kmap[n2] # 0 /\ NoStall(kmap[n2]) /\ NoStall(id)
    /\ (d1 \/ d2) => EnRemove
    /\ LET s  == seqno
           v  == nops + 1
           i2 == kmap[n2]
           e1 == IF d1 THEN Entry(k1, s, "T", NoVal, FALSE) ELSE Entry(k1, s, "V", v, FALSE)
           e2 == IF d2 THEN Entry(k2, s, "T", NoVal, FALSE) ELSE Entry(k2, s, "V", v, FALSE)
       IN
       /\ seqno' = s + 1
       /\ journals' = JAppend([s |-> s,
                               items |-> <<[id |-> id, k |-> k1, t |-> e1.t, v |-> e1.v],
                                           [id |-> i2, k |-> k2, t |-> e2.t, v |-> e2.v]>>,
                               clears |-> <<>>])
       /\ lsm' = [lsm EXCEPT ![id].a = @ \cup {e1}, ![i2].a = @ \cup {e2}]
       /\ visible' = Publish(s)
       /\ ref' = [ref EXCEPT ![n2][k2] = e2.v]
       /\ everDel' = everDel \cup (IF d1 THEN {} ELSE {v})
       /\ last' = [a |-> "StaleBatch", id |-> id, k |-> k1, del |-> d1, v |-> e1.v,
                    item |-> [name |-> n2, k |-> k2, v |-> e2.v, del |-> d2]]
    /\ nops' = nops + 1
    /\ UNCHANGED <<nextId, kmap, meta, dirs, old, zombie, held, jmgr, flushq, views, trk,
                   filt, frozen, taint, mtaint, ing, kf, nreopen, nmaint, nviews>>

\* Keyspace::clear: draw s, journal clear record, tree.clear() = version upgrade (draws a
\* second seqno for the version, bumps visible), publish(s)
Clear(n) ==
    /\ EnClear
    /\ nops < MaxOps
    /\ kmap[n] # 0
    /\ LET id == kmap[n]
           s  == seqno
           vs == seqno + 1
       IN
       /\ seqno' = seqno + 2
       /\ journals' = JAppend([s |-> s, items |-> <<>>, clears |-> <<id>>])
       /\ old' = [old EXCEPT ![id] = PushOld(id, lsm[id])]
       /\ lsm' = [lsm EXCEPT ![id] = [a |-> {}, sl |-> <<>>, rn |-> <<>>, vs |-> vs]]
       /\ visible' = IF vs + 1 > visible THEN vs + 1 ELSE visible
       /\ ref' = [ref EXCEPT ![n] = NoRef]
       /\ ing' = [ing EXCEPT ![id] = 0]
       /\ last' = [a |-> "Clear", name |-> n]
    /\ nops' = nops + 1
    /\ UNCHANGED <<nextId, kmap, meta, dirs, zombie, held, jmgr, flushq, views, trk,
                   filt, frozen, taint, mtaint, kf, everDel, nreopen, nmaint, nviews>>

\* Ingestion::finish with a non-empty sorted stream ks (set of keys; tomb = the keys written as
\* tombstones): under the journal mutex: rotate + flush the memtables (version upgrade #1, flush
\* watermark 0), draw the global seqno, register the ingested run as newest run (version
\* upgrade #2 with that seqno), then tracker gc.  Bypasses the journal.
Ingest(n, ks, tomb) ==
    /\ EnIngest
    /\ nops < MaxOps
    /\ kmap[n] # 0
    /\ ks # {} /\ tomb \subseteq ks
    /\ tomb # {} => EnRemove
    /\ LET id  == kmap[n]
           L   == lsm[id]
           v   == nops + 1
           mem == IF L.a = {} THEN L.sl ELSE Append(L.sl, L.a)
           hasMem == mem # <<>>
           \* flush of all sealed memtables (watermark 0): one new run
           s1  == seqno                     \* version seqno of the flush, if any
           L1  == IF hasMem
                  THEN [a |-> {}, sl |-> <<>>,
                        rn |-> <<Merge(UnionSeq(mem), 0, FALSE, "none")>> \o L.rn, vs |-> s1]
                  ELSE L
           g   == IF hasMem THEN seqno + 1 ELSE seqno      \* global seqno
           run == {Entry(k, g, IF k \in tomb THEN "T" ELSE "V",
                         IF k \in tomb THEN NoVal ELSE v, TRUE) : k \in ks}
           L2  == [a |-> L1.a, sl |-> L1.sl, rn |-> <<run>> \o L1.rn, vs |-> g]
           o1  == IF hasMem THEN PushOld(id, L) ELSE old[id]
           o2  == IF views = {} THEN o1 ELSE Append(o1, L1)
       IN
       /\ seqno' = g + 1
       /\ visible' = IF g + 1 > visible THEN g + 1 ELSE visible
       /\ lsm' = [lsm EXCEPT ![id] = L2]
       /\ old' = [old EXCEPT ![id] = o2]
       /\ trk' = TrkGC(trk, IF g + 1 > visible THEN g + 1 ELSE visible)
       /\ ref' = [ref EXCEPT ![n] = [k \in Keys |-> IF k \in ks
                                          THEN (IF k \in tomb THEN NoVal ELSE v) ELSE @[k]]]
       /\ ing' = [ing EXCEPT ![id] = g + 1]
       /\ last' = [a |-> "Ingest", name |-> n, keys |-> ks, tombs |-> tomb, v |-> v]
    /\ nops' = nops + 1
    /\ UNCHANGED <<nextId, kmap, meta, dirs, zombie, held, journals, jmgr, flushq, views,
                   filt, frozen, taint, mtaint, kf, everDel, nreopen, nmaint, nviews>>

-----------------------------------------------------------------------------
(* Maintenance                                                               *)

\* Keyspace::rotate_memtable() (also what a RotateMemtable worker message does): under the
\* journal mutex seal the active memtable; then enqueue a flush task, pullup + gc of the
\* tracker, version-history maintenance of every live keyspace, journal maintenance
JournalMaint(jm, L, zmb) == SubSeq(jm, EvictCount(jm, L, zmb) + 1, Len(jm))
JournalsAfterMaint(js, jm, L, zmb) ==
    LET n == EvictCount(jm, L, zmb) IN SubSeq(js, n + 1, Len(js))

Rotate(n) ==
    /\ nmaint < MaxMaint
    /\ kmap[n] # 0
    /\ lsm[kmap[n]].a # {}
    /\ LET id == kmap[n]
           L  == [lsm[id] EXCEPT !.sl = Append(@, lsm[id].a), !.a = {}]
           Ls == [lsm EXCEPT ![id] = L]
           t1 == TrkGC(TrkPullup(trk, visible), visible)
           fq == Append(flushq, id)
           ec == EvictCount(jmgr, Ls, zombie)
           jm == SubSeq(jmgr, ec + 1, Len(jmgr))
           rp == Reaped(zombie, held, fq, jm)
       IN
       /\ lsm' = [i \in Ids |-> IF i \in rp THEN EmptyLsm ELSE Ls[i]]
       /\ flushq' = fq
       /\ trk' = t1
       /\ old' = [i \in Ids |-> IF i \in rp THEN <<>>
                               ELSE IF i \in LiveIds THEN VersMaint(old[i], Ls[i], t1.wm)
                               ELSE old[i]]
       /\ jmgr' = jm
       /\ journals' = SubSeq(journals, ec + 1, Len(journals))
       /\ zombie' = zombie \ rp
       /\ dirs' = dirs \ rp
       /\ last' = [a |-> "Rotate", name |-> n]
    /\ nmaint' = nmaint + 1
    /\ UNCHANGED <<seqno, visible, nextId, kmap, meta, held, views, filt, ref, frozen,
                   taint, mtaint, ing, kf, everDel, nops, nreopen, nviews>>

\* worker_tick(Flush): dequeue a task; if jrot, rotate the journal first (sync old journal,
\* create the next one, capture the watermarks = highest memtable seqno of every keyspace in
\* the map); flush all sealed memtables of the task's keyspace into one new run (version
\* upgrade: draws a seqno, bumps visible; then version maintenance); journal maintenance
WorkerFlush(jrot) ==
    /\ nmaint < MaxMaint
    /\ flushq # <<>>
    /\ jrot => EnJRot
    /\ LET id == Head(flushq)
           fq == Tail(flushq)
           L  == lsm[id]
           doFlush == L.sl # <<>>
           wm == trk.wm
           s  == seqno
           Lf == IF doFlush
                 THEN [a |-> L.a, sl |-> <<>>,
                       rn |-> <<Merge(UnionSeq(L.sl), wm, FALSE, "none")>> \o L.rn, vs |-> s]
                 ELSE L
           Ls == [lsm EXCEPT ![id] = Lf]
           \* journal rotation happens before the flush: watermarks from the pre-flush state
           wms == {[id |-> kmap[m], lsn |-> HighestMemSeqno(lsm[kmap[m]]) - 1] :
                      m \in {x \in LiveNames : HighestMemSeqno(lsm[kmap[x]]) # 0}}
           js1 == IF jrot THEN Append(journals, [jid |-> Active.jid + 1, recs |-> <<>>])
                  ELSE journals
           jm1 == IF jrot THEN Append(jmgr, [jid |-> Active.jid, wm |-> wms]) ELSE jmgr
           ec  == EvictCount(jm1, Ls, zombie)
           jm2 == SubSeq(jm1, ec + 1, Len(jm1))
           rp  == Reaped(zombie, held, fq, jm2)
           o1  == IF doFlush THEN VersMaint(PushOld(id, L), Lf, wm) ELSE old[id]
       IN
       /\ flushq' = fq
       /\ seqno' = IF doFlush THEN s + 1 ELSE s
       /\ visible' = IF doFlush /\ s + 1 > visible THEN s + 1 ELSE visible
       /\ lsm' = [i \in Ids |-> IF i \in rp THEN EmptyLsm ELSE Ls[i]]
       /\ old' = [i \in Ids |-> IF i \in rp THEN <<>> ELSE IF i = id THEN o1 ELSE old[i]]
       /\ jmgr' = jm2
       /\ journals' = SubSeq(js1, ec + 1, Len(js1))
       /\ zombie' = zombie \ rp
       /\ dirs' = dirs \ rp
       /\ last' = [a |-> "Flush", jrot |-> jrot, id |-> id]
    /\ nmaint' = nmaint + 1
    /\ UNCHANGED <<nextId, kmap, meta, held, views, trk, filt, ref, frozen, taint, mtaint, ing, kf,
                   everDel, nops, nreopen, nviews>>

\* compaction: runs i..j (in read order) are merged into one run at position i; tombstones are
\* evicted when the output becomes the oldest run; the compaction filter applies to what is
\* rewritten.  major = all runs.  A compaction that has nothing to do changes nothing.
Compact(n, i, j) ==
    /\ EnCompact
    /\ nmaint < MaxMaint
    /\ kmap[n] # 0
    /\ LET id == kmap[n]
           L  == lsm[id]
       IN
       /\ 1 <= i /\ i <= j /\ j <= Len(L.rn)
       /\ (i < j \/ filt[id] # "none" \/ j = Len(L.rn))
       /\ LET wm  == trk.wm
              out == Merge(UnionSeq(SubSeq(L.rn, i, j)), wm, j = Len(L.rn), filt[id])
              rn2 == SubSeq(L.rn, 1, i - 1) \o (IF out = {} THEN <<>> ELSE <<out>>)
                       \o SubSeq(L.rn, j + 1, Len(L.rn))
              Lc  == [L EXCEPT !.rn = rn2, !.vs = seqno]
          IN
          /\ lsm' = [lsm EXCEPT ![id] = Lc]
          /\ old' = [old EXCEPT ![id] = VersMaint(PushOld(id, L), Lc, wm)]
          /\ seqno' = seqno + 1
          /\ visible' = IF seqno + 1 > visible THEN seqno + 1 ELSE visible
          /\ last' = [a |-> "Compact", name |-> n, major |-> (i = 1 /\ j = Len(L.rn)),
                      i |-> i, j |-> j]
    /\ nmaint' = nmaint + 1
    /\ UNCHANGED <<nextId, kmap, meta, dirs, zombie, held, journals, jmgr, flushq, views, trk,
                   filt, ref, frozen, taint, mtaint, ing, kf, everDel, nops, nreopen, nviews>>

\* Database::persist(mode): flushes the journal buffer to the OS and, for SyncData/SyncAll,
\* syncs the active journal.  No logical state changes at this granularity; the durability
\* it buys is specified in FjallCrash and checked by the crash / power-loss campaigns, which
\* use these steps as sync points.
Persist(m) ==
    /\ EnPersist
    /\ nmaint < MaxMaint
    /\ m \in {"Buffer", "SyncData", "SyncAll"}
    /\ last' = [a |-> "Persist", mode |-> m]
    /\ nmaint' = nmaint + 1
    /\ UNCHANGED <<seqno, visible, nextId, kmap, meta, dirs, lsm, old, zombie, held, journals,
                   jmgr, flushq, views, trk, filt, ref, frozen, taint, mtaint, ing, kf, everDel, nops,
                   nreopen, nviews>>

-----------------------------------------------------------------------------
(* Views                                                                     *)

ContentAt(i) ==
    [n \in Names |-> [k \in Keys |-> IF kmap[n] = 0 THEN NoVal ELSE ScanRead(kmap[n], k, i)]]

OpenView ==
    /\ EnViews
    /\ nviews < MaxViews
    /\ LET vid == nviews + 1 IN
       /\ views' = views \cup {[vid |-> vid, inst |-> visible]}
       /\ trk' = TrkInc(trk, visible)
       /\ frozen' = Append(frozen, [n \in Names |-> ref[n]])
       /\ nviews' = vid
       /\ last' = [a |-> "OpenView", vid |-> vid]
    /\ UNCHANGED <<seqno, visible, nextId, kmap, meta, dirs, lsm, old, zombie, held, journals,
                   jmgr, flushq, filt, ref, taint, mtaint, ing, kf, everDel, nops, nreopen, nmaint>>

CloseView(w) ==
    /\ w \in views
    /\ views' = views \ {w}
    /\ trk' = TrkDec(trk, w.inst)
    /\ last' = [a |-> "CloseView", vid |-> w.vid]
    /\ UNCHANGED <<seqno, visible, nextId, kmap, meta, dirs, lsm, old, zombie, held, journals,
                   jmgr, flushq, filt, ref, frozen, taint, mtaint, ing, kf, everDel, nops, nreopen, nmaint,
                   nviews>>

TrackerGC ==
    /\ EnViews
    /\ nmaint < MaxMaint
    /\ trk' = TrkGC(trk, visible)
    /\ trk' # trk
    /\ last' = [a |-> "GC"]
    /\ nmaint' = nmaint + 1
    /\ UNCHANGED <<seqno, visible, nextId, kmap, meta, dirs, lsm, old, zombie, held, journals,
                   jmgr, flushq, views, filt, ref, frozen, taint, mtaint, ing, kf, everDel, nops, nreopen,
                   nviews>>

-----------------------------------------------------------------------------
(* Close + reopen: drop every handle (Journal::drop syncs), then recover     *)

\* apply one journal record during replay
ApplyRec(L, r, known, skipCovered) ==
    LET \* items
        RECURSIVE ApplyItems(_, _)
        ApplyItems(LL, its) ==
            IF its = <<>> THEN LL
            ELSE LET it == Head(its)
                     covered == skipCovered /\ HighestPersisted(LL[it.id]) # 0
                                /\ HighestPersisted(LL[it.id]) - 1 >= r.s
                 IN IF it.id \notin known \/ covered THEN ApplyItems(LL, Tail(its))
                    ELSE ApplyItems([LL EXCEPT ![it.id].a =
                                        @ \cup {Entry(it.k, r.s, it.t, it.v, FALSE)}], Tail(its))
        RECURSIVE ApplyClears(_, _)
        ApplyClears(LL, cs) ==
            IF cs = <<>> THEN LL
            ELSE LET c == Head(cs)
                     covered == skipCovered /\ HighestPersisted(LL[c]) # 0
                                /\ HighestPersisted(LL[c]) - 1 >= r.s
                 IN IF c \notin known \/ covered THEN ApplyClears(LL, Tail(cs))
                    ELSE ApplyClears([LL EXCEPT ![c] = [a |-> {}, sl |-> <<>>, rn |-> <<>>,
                                                       vs |-> @.vs]], Tail(cs))
    IN ApplyClears(ApplyItems(L, r.items), r.clears)

RECURSIVE ReplayRecs(_, _, _, _)
ReplayRecs(L, recs, known, skipCovered) ==
    IF recs = <<>> THEN L
    ELSE ReplayRecs(ApplyRec(L, Head(recs), known, skipCovered), Tail(recs), known, skipCovered)

\* watermarks of a sealed journal as recovery recomputes them: highest record seqno per known id
RecWms(recs, known) ==
    LET touched(r) == {r.items[x].id : x \in 1..Len(r.items)} \cup
                      {r.clears[x] : x \in 1..Len(r.clears)}
        ids == UNION {touched(recs[x]) \cap known : x \in 1..Len(recs)}
    IN {[id |-> i, lsn |-> MaxOf({recs[x].s : x \in {y \in 1..Len(recs) : i \in touched(recs[y])}})]
          : i \in ids}

\* per keyspace of a sealed journal: skip if the tables cover the watermark, else seal
RECURSIVE SealEach(_, _)
SealEach(L, wms) ==
    IF wms = {} THEN L
    ELSE LET w  == CHOOSE x \in wms : TRUE
             Li == L[w.id]
             skip == HighestPersisted(Li) # 0 /\ HighestPersisted(Li) - 1 >= w.lsn
             L2 == IF skip
                   THEN (IF Li.a = {} THEN L     \* clear_active_memtable: nothing if empty
                         ELSE [L EXCEPT ![w.id].a = {}, ![w.id].sl = <<>>])
                   ELSE IF Li.a = {} THEN L
                   ELSE [L EXCEPT ![w.id].sl = Append(@, Li.a), ![w.id].a = {}]
         IN SealEach(L2, wms \ {w})

\* the assertion in recover_sealed_memtables: the sealed memtable's highest seqno must equal
\* the watermark
SealAssertFails(L, wms) ==
    \E w \in wms :
        LET Li == L[w.id]
            skip == HighestPersisted(Li) # 0 /\ HighestPersisted(Li) - 1 >= w.lsn
        IN ~skip /\ Li.a # {} /\ MaxOf({e.s : e \in Li.a}) # w.lsn

RECURSIVE RecoverSealed(_, _, _, _)
RecoverSealed(L, js, known, acc) ==
    \* returns [L, jm, panic, seqs]
    IF js = <<>> THEN acc
    ELSE LET j   == Head(js)
             L1  == ReplayRecs(acc.L, j.recs, known, FixCovered)
             wms == RecWms(j.recs, known)
             L2  == SealEach(L1, wms)
             sealedIds == {w.id : w \in {x \in wms : L2[x.id].sl # L1[x.id].sl}}
         IN RecoverSealed(L, Tail(js), known,
                [L |-> L2,
                 jm |-> Append(acc.jm, [jid |-> j.jid, wm |-> wms]),
                 panic |-> acc.panic \/ SealAssertFails(L1, wms),
                 sq |-> MaxOf({acc.sq} \cup {HighestSeqno(L2[i]) : i \in sealedIds})])

JournalSeqnos(js) ==
    UNION {{js[x].recs[y].s : y \in 1..Len(js[x].recs)} : x \in 1..Len(js)}

\* D1/D2 signature (known finding): bulk ingestion bypasses the journal, but recovery replays
\* the journal as if it were complete - a journal record of keyspace id that is older than a
\* later ingestion into id is replayed on top of (or, for clear, wipes) the ingested data
ReplayOverIngested(js, known) ==
    {id \in known :
        /\ ing[id] # 0
        /\ \E x \in 1..Len(js) : \E y \in 1..Len(js[x].recs) :
              LET r == js[x].recs[y] IN
              /\ r.s + 1 < ing[id]
              \* ... and the record is not skipped as covered by the tables
              /\ ~(FixCovered /\ HighestPersisted(lsm[id]) # 0 /\ HighestPersisted(lsm[id]) - 1 >= r.s)
              /\ \/ \E z \in 1..Len(r.clears) : r.clears[z] = id
                 \/ \E z \in 1..Len(r.items) : r.items[z].id = id}

\* what Database::recover computes from the durable state (journal files, tables, meta
\* keyspace, keyspace folders) - used by CloseReopen and, as "what a crash right now would
\* recover", by the CrashSafe invariant
Rec ==
    LET \* drop: every handle goes away; deleted keyspaces' folders are removed
        dirs0  == dirs \ zombie
        \* recover_keyspaces
        known  == {id \in dirs0 : MetaResolves(meta, id)}
        highest == MaxOf(dirs0 \cup {1})
        seedFix == MaxOf({highest} \cup
                         UNION {{r.items[z].id : z \in 1..Len(r.items)} \cup
                                {r.clears[z] : z \in 1..Len(r.clears)} :
                                  r \in UNION {{journals[x].recs[y] : y \in 1..Len(journals[x].recs)}
                                                : x \in 1..Len(journals)}})
        L0 == [i \in Ids |-> IF i \in known
                             THEN [a |-> {}, sl |-> <<>>, rn |-> lsm[i].rn, vs |-> 0]
                             ELSE EmptyLsm]
        sealedJs == SubSeq(journals, 1, Len(journals) - 1)
        rs == RecoverSealed(L0, sealedJs, known,
                            [L |-> L0, jm |-> <<>>, panic |-> FALSE, sq |-> 0])
        L1 == ReplayRecs(rs.L, Active.recs, known, FixCovered)
        sq1 == MaxOf({rs.sq} \cup {HighestSeqno(L1[i]) : i \in known})
        sq1b == IF FixSeqno THEN MaxOf({sq1} \cup {s + 1 : s \in JournalSeqnos(journals)})
                ELSE sq1
        sq2 == IF FixMetaSeqno THEN MaxOf({sq1b} \cup {e.s + 1 : e \in meta}) ELSE sq1b
    IN [known |-> known,
        nextId |-> IF FixIdSeed THEN seedFix + 1 ELSE highest + 1,
        L |-> L1, jm |-> rs.jm, panic |-> rs.panic, sq |-> sq2,
        tnt |-> ReplayOverIngested(journals, known),
        km |-> [n \in Names |-> IF \E id \in known : MetaName(meta, id) = n
                                THEN CHOOSE id \in known : MetaName(meta, id) = n ELSE 0]]

\* the same without the coverage condition: whether an older record is skipped depends on the
\* highest seqno left in the tables, i.e. on which compactions ran (not observable in replay)
MayReplayOverIngested(js, known) ==
    {id \in known :
        /\ ing[id] # 0
        /\ \E x \in 1..Len(js) : \E y \in 1..Len(js[x].recs) :
              LET r == js[x].recs[y] IN
              /\ r.s + 1 < ing[id]
              /\ \/ \E z \in 1..Len(r.clears) : r.clears[z] = id
                 \/ \E z \in 1..Len(r.items) : r.items[z].id = id}

\* Known finding D24: an item the compaction filter REMOVED (tombstone evicted at the last level)
\* had the highest seqno of the flushed data: the tables' highest persisted seqno drops below
\* its journal record, which is therefore not recognized as "already persisted" and replayed at
\* the next recovery - the item is back in its original form.
FilterReplayRisk(id, k) ==
    /\ id \in LiveIds /\ filt[id] # "none"
    /\ \E n \in LiveNames : /\ kmap[n] = id /\ ref[n][k] # NoVal /\ ScanRead(id, k, Inf) = NoVal
                             \* the filter's verdict for the item is Remove
                             /\ FilterEntryK(filt[id], Entry(k, 0, "V", ref[n][k], FALSE)).t = "T"
    /\ \E x \in 1..Len(journals) : \E y \in 1..Len(journals[x].recs) :
          LET r == journals[x].recs[y] IN
          /\ \E z \in 1..Len(r.items) : r.items[z].id = id /\ r.items[z].k = k /\ r.items[z].t = "V"
          /\ ~(HighestPersisted(lsm[id]) # 0 /\ HighestPersisted(lsm[id]) - 1 >= r.s)
          \* only the active journal is replayed unconditionally; a sealed journal is replayed
          \* if its watermark is not covered either
          /\ (x = Len(journals) \/ TRUE)
FindingD24 == \E id \in Ids, k \in Keys : FilterReplayRisk(id, k)
NoFinding_D24 == ~FindingD24

CloseReopen ==
    /\ nreopen < MaxReopen
    /\ LET R == Rec IN
       /\ ~R.panic     \* a panicking recovery is reported by RecoveryNeverPanics below
       /\ dirs' = R.known
       /\ nextId' = R.nextId
       /\ kmap' = R.km
       /\ lsm' = R.L
       /\ old' = [i \in Ids |-> <<>>]
       /\ zombie' = {} /\ held' = {}
       /\ jmgr' = R.jm
       \* startup flush tasks: one per keyspace with sealed memtables, in hash-map order
       /\ flushq' \in Perms({id \in R.known : R.L[id].sl # <<>>})
       /\ seqno' = R.sq /\ visible' = R.sq
       /\ views' = {} /\ trk' = [data |-> {}, wm |-> IF R.sq = 0 THEN 0 ELSE R.sq - 1]
       /\ frozen' = frozen
       /\ taint' = (taint \cap R.known) \cup R.tnt
       /\ mtaint' = (mtaint \cap R.known) \cup MayReplayOverIngested(journals, R.known)
       /\ kf' = (IF \E s \in JournalSeqnos(journals) : R.sq <= s THEN kf \cup {"D12"} ELSE kf)
                \cup (IF FindingD24 THEN {"D24"} ELSE {})
       /\ last' = [a |-> "Reopen", fq |-> flushq']
       /\ filt' = [i \in Ids |-> IF i \in R.known THEN KindFor(MetaName(meta, i)) ELSE "none"]
    /\ nreopen' = nreopen + 1
    /\ UNCHANGED <<meta, journals, ref, ing, everDel, nops, nmaint, nviews>>

RecoveryPanics == Rec.panic

-----------------------------------------------------------------------------
Next ==
    \/ \E n \in Names : CreateKeyspace(n)
    \/ \E n \in Names, b \in BOOLEAN : DeleteKeyspace(n, b)
    \/ \E id \in Ids : DropHandle(id)
    \/ \E n \in Names, k \in Keys, d \in BOOLEAN : Write(n, k, d)
    \/ \E n1, n2 \in Names, k1, k2 \in Keys, d1, d2 \in BOOLEAN, dur \in BatchDurs : BatchCommit(n1, k1, d1, n2, k2, d2, dur)
    \/ \E id \in Ids, n2 \in Names, k1, k2 \in Keys, d1, d2 \in BOOLEAN : StaleBatch(id, k1, d1, n2, k2, d2)
    \/ \E n \in Names : Clear(n)
    \/ \E n \in Names, ks \in SUBSET Keys, tb \in SUBSET Keys : Ingest(n, ks, tb)
    \/ \E n \in Names : Rotate(n)
    \/ \E b \in BOOLEAN : WorkerFlush(b)
    \/ \E n \in Names, i, j \in 1..4 : Compact(n, i, j)
    \/ \E m \in {"Buffer", "SyncData", "SyncAll"} : Persist(m)
    \/ OpenView
    \/ \E w \in views : CloseView(w)
    \/ TrackerGC
    \/ CloseReopen

Spec == Init /\ [][Next]_vars

-----------------------------------------------------------------------------
(* Properties                                                                *)

Untainted(id) == id \notin taint

\* C01 / C04: point reads and scans agree, and equal the reference map
PointEqScan ==
    \A n \in LiveNames : Untainted(kmap[n]) =>
        \A k \in Keys : PointRead(kmap[n], k, Inf) = ScanRead(kmap[n], k, Inf)
ViewEqRef ==
    \A n \in LiveNames : (Untainted(kmap[n]) /\ filt[kmap[n]] = "none") =>
        \A k \in Keys : ScanRead(kmap[n], k, Inf) = ref[n][k]

\* C05: every live view still reads what it saw when it was opened, by point read and by
\* scan, and the version it needs exists
ViewsFrozen ==
    \A w \in views : \A n \in Names :
        (kmap[n] # 0 /\ Untainted(kmap[n])) =>
           /\ ~VersionMissing(kmap[n], w.inst)
           /\ \A k \in Keys :
                 /\ ScanRead(kmap[n], k, w.inst) = frozen[w.vid][n][k]
                 /\ PointRead(kmap[n], k, w.inst) = frozen[w.vid][n][k]
WatermarkBelowLive == \A w \in views : trk.wm < w.inst \/ w.inst = 0   \* instant 0 always reads the oldest version

\* C11: counters after (and between) reopens
MaxEntrySeqno == MaxOf(UNION {{e.s + 1 : e \in lsm[i].a \cup UnionSeq(lsm[i].sl) \cup UnionSeq(lsm[i].rn)}
                               : i \in LiveIds})
SeqnoAboveEntries == seqno >= MaxEntrySeqno
SeqnoAboveJournal == \A s \in JournalSeqnos(journals) : seqno > s
VisibleLeSeqno == visible <= seqno

\* C02/C04: recovery never panics
RecoveryNeverPanics == ~RecoveryPanics

\* the same, waived downstream of the known finding D12 (seqno regression at reopen); the
\* signatures of the known findings themselves, checked in separate runs that are expected
\* to reach them as long as the finding is open
SeqnoAboveJournalKF == "D12" \in kf \/ SeqnoAboveJournal
RecoveryNeverPanicsKF == "D12" \in kf \/ RecoveryNeverPanics
NoFinding_D1D2 == taint = {}
NoFinding_D12 == "D12" \notin kf

\* C10: journals are reclaimed oldest first, and the manager tracks exactly the sealed files
JournalsConsistent ==
    /\ Len(journals) = Len(jmgr) + 1
    /\ \A x \in 1..Len(jmgr) : jmgr[x].jid = journals[x].jid
    /\ \A x \in 1..(Len(journals) - 1) : journals[x].jid < journals[x + 1].jid
\* C02 / C10 at the granularity of this module (client operations atomic): whatever state
\* the process dies in, recovery from the durable state yields the reference content for
\* every keyspace - in particular right after any journal eviction
CrashSafe ==
    LET R == Rec IN
    /\ ~R.panic
    /\ \A n \in Names : R.km[n] = kmap[n] \/ kmap[n] \in zombie
    /\ \A n \in LiveNames :
          (kmap[n] \notin taint \cup R.tnt /\ filt[kmap[n]] = "none") =>
             \A k \in Keys : /\ ScanReadV(R.L[kmap[n]], k, Inf) = ref[n][k]
                              /\ PointReadV(R.L[kmap[n]], k, Inf) = ref[n][k]

\* once every keyspace has been flushed and journal maintenance ran, one journal file is left.
\* Known finding D15: a keyspace whose tables were dropped by clear() (no tables, nothing to
\* flush) can never satisfy its watermark, so the sealed journal stays until that keyspace is
\* written and flushed again.
AllFlushedNow == /\ last.a = "Flush"
                 /\ \A id \in LiveIds : lsm[id].a = {} /\ lsm[id].sl = <<>>
PinnedByEmptyKeyspace ==
    /\ jmgr # <<>>
    /\ \E w \in Head(jmgr).wm : /\ w.id \notin zombie
                                 /\ HighestPersisted(lsm[w.id]) = 0
                                 /\ lsm[w.id].a = {} /\ lsm[w.id].sl = <<>>
AllFlushedOneJournal == (AllFlushedNow /\ ~PinnedByEmptyKeyspace) => Len(journals) = 1
FindingD15 == AllFlushedNow /\ PinnedByEmptyKeyspace /\ Len(journals) > 1
NoFinding_D15 == ~FindingD15

\* C18: compaction filters
FilteredFormOnly ==
    \A n \in LiveNames : (Untainted(kmap[n]) /\ filt[kmap[n]] # "none") =>
        \A k \in Keys : LET v == ScanRead(kmap[n], k, Inf) IN
            /\ (v = ref[n][k] \/ v = FilteredFormK(filt[kmap[n]], k, ref[n][k]))
            /\ PointRead(kmap[n], k, Inf) = v
AssignedIffAssigner == \A n \in LiveNames : filt[kmap[n]] = KindFor(n)
\* a key observed in filtered form stays so until it is written again
\* (also across close + reopen; waived only for the signature of the open finding D24)
FilteredIsSticky ==
    [][\A n \in Names : (kmap[n] # 0 /\ kmap'[n] = kmap[n] /\ filt[kmap[n]] # "none") =>
        \A k \in Keys :
            (/\ ref'[n][k] = ref[n][k] /\ nops' = nops
             /\ ScanRead(kmap[n], k, Inf) # ref[n][k]
             /\ ~(last'.a = "Reopen" /\ FilterReplayRisk(kmap[n], k))) =>
                (ScanRead(kmap[n], k, Inf))' = ScanRead(kmap[n], k, Inf)]_vars
\* the same without the waiver (signature run)
FilteredIsStickyStrict ==
    [][\A n \in Names : (kmap[n] # 0 /\ kmap'[n] = kmap[n] /\ filt[kmap[n]] # "none") =>
        \A k \in Keys :
            (/\ ref'[n][k] = ref[n][k] /\ nops' = nops
             /\ ScanRead(kmap[n], k, Inf) # ref[n][k]) =>
                (ScanRead(kmap[n], k, Inf))' = ScanRead(kmap[n], k, Inf)]_vars

\* C12
Isolation == TRUE  \* by construction of ref per name; checked through ViewEqRef
DeletedNameAbsent == \A n \in Names : kmap[n] = 0 => \A id \in dirs \ zombie : MetaName(meta, id) # n
NoResurrection ==
    \A n \in LiveNames : \A k \in Keys :
        LET v == ScanRead(kmap[n], k, Inf) IN v # NoVal => v = ref[n][k] \/ kmap[n] \in taint
\* what is in memory is what recovery would find: every live keyspace resolves through the
\* durable meta keyspace and has its folder
DurableMatchesMemory == \A n \in Names : kmap[n] # 0 => (MetaName(meta, kmap[n]) = n /\ kmap[n] \in dirs)
FilesGone == \A id \in Ids : (id \notin LiveIds /\ id \notin zombie) => id \notin dirs

TypeOK ==
    /\ seqno \in Nat /\ visible \in Nat
    /\ \A id \in Ids : Len(lsm[id].sl) <= 6

=============================================================================
