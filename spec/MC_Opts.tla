------------------------------ MODULE MC_Opts ------------------------------
EXTENDS FjallOptions
\* four configurations that differ in which rows exist and in every class value
CfgA == [strat |-> "leveled", sp |-> "l1", blob |-> "none", manual |-> FALSE, mem |-> "m1", pol |-> "p1"]
CfgB == [strat |-> "fifo", sp |-> "ttl", blob |-> "b1", manual |-> TRUE, mem |-> "m2", pol |-> "p2"]
CfgC == [strat |-> "fifo", sp |-> "nottl", blob |-> "none", manual |-> FALSE, mem |-> "m2", pol |-> "p1"]
CfgD == [strat |-> "leveled", sp |-> "l2", blob |-> "b2", manual |-> TRUE, mem |-> "m1", pol |-> "p2"]
CfgsMC == {CfgA, CfgB, CfgC, CfgD}
=============================================================================
