\* C02 / C03 / C09: 2 writer threads, 3 ops (single write, clear, batch), persist calls of every mode, crash / power loss anywhere, no I/O faults
SPECIFICATION Spec
CONSTANTS
  Threads = {1, 2}
  MaxOps = 3
  Kinds = {"w", "c", "b", "bs"}
  ManualKs = FALSE
  ManualDb = FALSE
  PersistShortcut = FALSE
  SyncBatchSyncs = TRUE
  MaxFaults = 0
  EnPersistCall = TRUE
  FixPoisonAppend = TRUE
  ClearFlushes = TRUE
INVARIANTS CrashRecoversAcked PowerLossKeepsDurable CrashKeepsBuffered SyncOrder MutualExclusion FailStop ClearDropsTablesOnlyWithRecord
CHECK_DEADLOCK FALSE
