\* C17 liveness: after the last user handle is gone the lock is eventually released (weak fairness of drops and workers)
SPECIFICATION FairSpec
CONSTANTS
  NWorkers = 2
  MaxAttempts = 2
  MaxDb = 1
  MaxKs = 1
  MaxSends = 1
  QCap = 3
  Markers = {"none", "v2", "v3x"}
  ExitOrder = "rel_first"
  FailCounts = TRUE
  WorkerMayFail = TRUE
  AdoptGuard = TRUE
  WeakMessager = TRUE
  CloseSend = "try"
  DrainInLoop = TRUE
PROPERTY DropTerminatesAll
CHECK_DEADLOCK FALSE
