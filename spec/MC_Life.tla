------------------------------ MODULE MC_Life ------------------------------
EXTENDS DbLifecycle
\* (no waivers: every lifecycle finding was repaired, see KNOWN_FINDINGS.json D19-D22)
DropTerminatesAll == \A i \in Inst : (NoHandleStable(i) ~> (flock # i \/ HasUserHandle(i)))
=============================================================================
