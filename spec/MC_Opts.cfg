\* C16: create / open-existing / delete / re-create over 2 names with 4 configurations, meta compaction, journal eviction, 2 reopens
SPECIFICATION Spec
CONSTANTS
  Names = {"a", "b"}
  Cfgs <- CfgsMC
  MaxId = 4
  MaxReopen = 2
  MaxOps = 5
  IdsFromJournal = TRUE
  SeqnoFromMeta = TRUE
INVARIANTS InForce StoredExact DecodeOfStored NoDeadRows OpenIgnoresPassed IdsDistinct
CHECK_DEADLOCK FALSE
