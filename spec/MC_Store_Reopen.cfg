\* C04 / C11: close+reopen anywhere, up to 2 cycles (1 keyspace, 2 keys, 4 ops, 3 maintenance steps)
SPECIFICATION Spec
CONSTANTS
  Keys = {1, 2}
  Names = {"a"}
  MaxId = 1
  MaxOps = 4
  MaxReopen = 2
  MaxMaint = 3
  MaxViews = 0
  EnBatch = FALSE
  EnClear = TRUE
  EnIngest = TRUE
  EnKs = FALSE
  EnJRot = FALSE
  EnViews = FALSE
  EnCompact = TRUE
  EnPersist = FALSE
  EnRemove = TRUE
  FilterNames = {}
  FixCovered = TRUE
  FixSeqno = TRUE
  FixIdSeed = TRUE
  FixMetaSeqno = TRUE
  FixTrkZero = TRUE
VIEW View
CONSTRAINT Bounded
INVARIANTS PointEqScan ViewEqRef SeqnoAboveEntries SeqnoAboveJournal VisibleLeSeqno JournalsConsistent CrashSafe RecoveryNeverPanics
CHECK_DEADLOCK FALSE
