\* C08: single-writer database: write transactions never overlap (2 transactions, 2 keys, 3 ops)
SPECIFICATION Spec
CONSTANTS
  Txs = {1, 2}
  Keys = {1, 2}
  KsSplit = 100
  MaxOpsPerTx = 3
  Methods = {"get", "scan", "insert", "remove", "rmw"}
  SingleWriter = TRUE
  EnGC = FALSE
  FixSizeOf = TRUE
  FixDoubleClose = TRUE
VIEW TxViewBase
INVARIANTS Serializable SingleWriterExclusion NoEffectUnlessCommitted CommitIsFinalWrites
CHECK_DEADLOCK FALSE
