\* C07: 2 concurrent optimistic transactions, 2 keys, <= 3 operations each, all read/write methods, all begin/commit/rollback orders
SPECIFICATION Spec
CONSTANTS
  Txs = {1, 2}
  Keys = {1, 2}
  KsSplit = 100
  MaxOpsPerTx = 3
  Methods = {"get", "size_of", "scan", "range_lo", "insert", "remove", "rmw"}
  SingleWriter = FALSE
  EnGC = FALSE
  FixSizeOf = TRUE
  FixDoubleClose = TRUE
VIEW TxViewBase
INVARIANTS Serializable NoEffectUnlessCommitted CommitIsFinalWrites
CHECK_DEADLOCK FALSE
