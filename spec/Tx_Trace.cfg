SPECIFICATION TraceSpec
CONSTANTS
  Threads = {1, 2, 3, 4, 5, 6, 7, 8}
INVARIANTS Serializable
CONSTRAINT TrackL
POSTCONDITION TraceAccepted
CHECK_DEADLOCK FALSE
